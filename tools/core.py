#!/usr/bin/env python3
# usage: core.py file.smt2   — splits the last (assert (and ...)) or all asserts into named ones and prints an unsat core
import re,subprocess,sys
f=sys.argv[1]
s=open(f).read()
lines=s.split('\n')
decl=[l for l in lines if not l.startswith('(assert') and not l.startswith('(check-sat') and not l.startswith('(get-')]
asserts=[l for l in lines if l.startswith('(assert')]
def split_top(b):
    b=b[5:-1]
    parts=[];depth=0;cur='';inbar=False
    for ch in b:
        if ch=='|': inbar=not inbar
        if not inbar:
            if ch=='(':depth+=1
            if ch==')':depth-=1
        if ch==' ' and depth==0 and not inbar:
            if cur: parts.append(cur); cur=''
        else: cur+=ch
    if cur: parts.append(cur)
    return parts
parts=[]
for a in asserts:
    body=a[len('(assert '):-1]
    if body.startswith('(and '): parts+=split_top(body)
    else: parts.append(body)
out='(set-option :produce-unsat-cores true)\n'+'\n'.join(d for d in decl if 'produce-models' not in d)+'\n'
for k,p in enumerate(parts): out+="(assert (! %s :named a%d))\n"%(p,k)
out+="(check-sat)\n(get-unsat-core)\n"
open('/tmp/core.smt2','w').write(out)
r=subprocess.run(['z3','-T:60','/tmp/core.smt2'],capture_output=True,text=True).stdout
print(r[:300])
for c in re.findall(r'\ba(\d+)\b',r): print(c, parts[int(c)][:600]); print()
