package main

import (
	"fmt"
	"go/ast"
	"go/parser"
	"go/token"
	"go/types"
	"os"
	"path/filepath"
	"sort"
	"strings"

	"golang.org/x/tools/go/packages"
)

type FuncInfo struct {
	Key   string
	Short string
	Decl  *ast.FuncDecl
	Pkg   *packages.Package
	Obj   *types.Func
	Con   *Contract
	File  *ast.File
}

type VC struct {
	fset           *token.FileSet
	pkgs           map[string]*packages.Package
	funcs          map[string]*FuncInfo // by key
	byShort        map[string]*FuncInfo
	contracts      []*Contract
	lemmas         []*Lemma
	ifaceContracts map[string]*Contract
	ifaceFuncs     map[string]*FuncInfo
	guards         map[string]*Guard
	errIDs         map[string]int64
	typeIDs        map[string]int64
	timeT, durT    types.Type
	errT           types.Type
	loadErrors     []string
	contractErrors []string
}

func funcKey(fn *types.Func) string {
	if o := fn.Origin(); o != nil {
		fn = o
	}
	return fn.FullName()
}

func shortName(fn *types.Func) string {
	sig := fn.Type().(*types.Signature)
	pkg := ""
	if fn.Pkg() != nil {
		pkg = fn.Pkg().Name()
	}
	if r := sig.Recv(); r != nil {
		t := r.Type()
		ptr := ""
		if p, ok := t.(*types.Pointer); ok {
			t = p.Elem()
			ptr = "*"
		}
		name := "?"
		if n, ok := types.Unalias(t).(*types.Named); ok {
			name = n.Obj().Name()
		}
		return fmt.Sprintf("%s.(%s%s).%s", pkg, ptr, name, fn.Name())
	}
	return pkg + "." + fn.Name()
}

func (vc *VC) errSentinel(name string) int64 {
	if id, ok := vc.errIDs[name]; ok {
		return id
	}
	id := int64(1000 + len(vc.errIDs))
	vc.errIDs[name] = id
	return id
}

func (vc *VC) typeID(t types.Type) int64 {
	k := typeKey(t)
	if id, ok := vc.typeIDs[k]; ok {
		return id
	}
	id := int64(1 + len(vc.typeIDs))
	vc.typeIDs[k] = id
	return id
}

var universeDone bool

var ghostByteT types.Type

func setupUniverse(timeT types.Type) {
	if universeDone {
		return
	}
	universeDone = true
	anyT := types.Universe.Lookup("any").Type()
	bt := types.Typ[types.Bool]
	it := types.Typ[types.Int]
	v := func(n string, t types.Type) *types.Var { return types.NewVar(token.NoPos, nil, n, t) }
	mi := types.NewTypeName(token.NoPos, nil, "mathint", nil)
	mathintType = types.NewNamed(mi, types.Typ[types.Int], nil)
	types.Universe.Insert(mi)
	generic1 := func(name string, res func(tp *types.TypeParam) types.Type) {
		tp := types.NewTypeParam(types.NewTypeName(token.NoPos, nil, "T", nil), anyT)
		sig := types.NewSignatureType(nil, nil, []*types.TypeParam{tp}, types.NewTuple(v("x", tp)), types.NewTuple(v("", res(tp))), false)
		types.Universe.Insert(types.NewFunc(token.NoPos, nil, name, sig))
	}
	generic1("old", func(tp *types.TypeParam) types.Type { return tp })
	generic1("before", func(tp *types.TypeParam) types.Type { return tp })
	generic1("prev", func(tp *types.TypeParam) types.Type { return tp })
	generic1("fresh", func(tp *types.TypeParam) types.Type { return bt })
	generic1("regionof", func(tp *types.TypeParam) types.Type { return mathintType })
	generic1("offsetof", func(tp *types.TypeParam) types.Type { return it })
	generic1("f64", func(tp *types.TypeParam) types.Type { return types.Typ[types.Float64] })
	generic1("refof", func(tp *types.TypeParam) types.Type { return mathintType })
	generic1("capof", func(tp *types.TypeParam) types.Type { return it })
	generic1("lenof", func(tp *types.TypeParam) types.Type { return it })
	generic1("every", func(tp *types.TypeParam) types.Type { return tp })
	generic1("lastreadof", func(tp *types.TypeParam) types.Type { return tp })
	// provenance of a slice returned by the TLS exporter model: the label, and the context's length and bytes
	generic1("exportlabel", func(tp *types.TypeParam) types.Type { return types.Typ[types.String] })
	generic1("exportctxlen", func(tp *types.TypeParam) types.Type { return it })
	{
		tp := types.NewTypeParam(types.NewTypeName(token.NoPos, nil, "T", nil), anyT)
		sig := types.NewSignatureType(nil, nil, []*types.TypeParam{tp}, types.NewTuple(v("x", tp), v("i", it)), types.NewTuple(v("", it)), false)
		types.Universe.Insert(types.NewFunc(token.NoPos, nil, "exportctxbyte", sig))
	}
	{
		// hastype(x, y): the dynamic type of the interface value x is the (static) type of y
		ta := types.NewTypeParam(types.NewTypeName(token.NoPos, nil, "A", nil), anyT)
		tb := types.NewTypeParam(types.NewTypeName(token.NoPos, nil, "B", nil), anyT)
		types.Universe.Insert(types.NewFunc(token.NoPos, nil, "hastype", types.NewSignatureType(nil, nil, []*types.TypeParam{ta, tb}, types.NewTuple(v("x", ta), v("y", tb)), types.NewTuple(v("", bt)), false)))
	}
	{
		tk := types.NewTypeParam(types.NewTypeName(token.NoPos, nil, "K", nil), types.Universe.Lookup("comparable").Type())
		types.Universe.Insert(types.NewFunc(token.NoPos, nil, "visited", types.NewSignatureType(nil, nil, []*types.TypeParam{tk}, types.NewTuple(v("k", tk)), types.NewTuple(v("", bt)), false)))
	}
	{
		te := types.NewTypeParam(types.NewTypeName(token.NoPos, nil, "E", nil), anyT)
		sig := types.NewSignatureType(nil, nil, []*types.TypeParam{te}, types.NewTuple(v("a", types.NewSlice(te)), v("b", types.NewSlice(te))), types.NewTuple(v("", bt)), false)
		types.Universe.Insert(types.NewFunc(token.NoPos, nil, "permutation", sig))
	}
	fsig := types.NewSignatureType(nil, nil, nil, types.NewTuple(v("i", it)), types.NewTuple(v("", bt)), false)
	{
		tb := types.NewTypeParam(types.NewTypeName(token.NoPos, nil, "B", nil), anyT)
		fsig1 := types.NewSignatureType(nil, nil, nil, types.NewTuple(v("i", tb)), types.NewTuple(v("", bt)), false)
		types.Universe.Insert(types.NewFunc(token.NoPos, nil, "all__", types.NewSignatureType(nil, nil, []*types.TypeParam{tb}, types.NewTuple(v("f", fsig1)), types.NewTuple(v("", bt)), false)))
	}
	for _, q := range []string{"forall__", "exists__", "forallq__"} {
		sig := types.NewSignatureType(nil, nil, nil, types.NewTuple(v("lo", it), v("hi", it), v("f", fsig)), types.NewTuple(v("", bt)), false)
		types.Universe.Insert(types.NewFunc(token.NoPos, nil, q, sig))
	}
	types.Universe.Insert(types.NewFunc(token.NoPos, nil, "implies__", types.NewSignatureType(nil, nil, nil, types.NewTuple(v("a", bt), v("b", bt)), types.NewTuple(v("", bt)), false)))
	types.Universe.Insert(types.NewFunc(token.NoPos, nil, "isfinite", types.NewSignatureType(nil, nil, nil, types.NewTuple(v("x", types.Typ[types.Float64])), types.NewTuple(v("", bt)), false)))
	for _, n := range []string{"lastSealAD", "lastSealPT", "lastSealKey", "lastOpenAD", "lastOpenNonce", "lastOpenCT", "lastOpenKey"} {
		types.Universe.Insert(types.NewFunc(token.NoPos, nil, n, types.NewSignatureType(nil, nil, nil, nil, types.NewTuple(v("", types.NewSlice(types.Typ[types.Uint8]))), false)))
	}
	{
		// snapshots of datagrams live in their own heap family (element type ghostbyte) so that later writes to, or
		// loop havoc of, ordinary byte buffers cannot touch them
		gb := types.NewTypeName(token.NoPos, nil, "ghostbyte", nil)
		ghostByteT = types.NewNamed(gb, types.Typ[types.Uint8], nil)
		types.Universe.Insert(gb)
	}
	for _, n := range []string{"lastpkt", "lastsent"} {
		types.Universe.Insert(types.NewFunc(token.NoPos, nil, n, types.NewSignatureType(nil, nil, nil, nil, types.NewTuple(v("", types.NewSlice(ghostByteT))), false)))
	}
	for _, n := range []string{"sealed", "opened", "lastreadok", "tlsdone"} {
		types.Universe.Insert(types.NewFunc(token.NoPos, nil, n, types.NewSignatureType(nil, nil, nil, nil, types.NewTuple(v("", bt)), false)))
	}
	types.Universe.Insert(types.NewFunc(token.NoPos, nil, "calls", types.NewSignatureType(nil, nil, nil, types.NewTuple(v("name", types.Typ[types.String])), types.NewTuple(v("", mathintType)), false)))
	for _, n := range []string{"lastreadn", "lastreadwant"} {
		types.Universe.Insert(types.NewFunc(token.NoPos, nil, n, types.NewSignatureType(nil, nil, nil, nil, types.NewTuple(v("", it)), false)))
	}
	types.Universe.Insert(types.NewFunc(token.NoPos, nil, "iter", types.NewSignatureType(nil, nil, nil, nil, types.NewTuple(v("", it)), false)))
	for _, n := range []string{"floordiv", "floormod"} {
		types.Universe.Insert(types.NewFunc(token.NoPos, nil, n, types.NewSignatureType(nil, nil, nil, types.NewTuple(v("a", mathintType), v("b", mathintType)), types.NewTuple(v("", mathintType)), false)))
	}
	if timeT != nil {
		types.Universe.Insert(types.NewFunc(token.NoPos, nil, "lastnow", types.NewSignatureType(nil, nil, nil, nil, types.NewTuple(v("", timeT)), false)))
		types.Universe.Insert(types.NewFunc(token.NoPos, nil, "unixns", types.NewSignatureType(nil, nil, nil, types.NewTuple(v("t", timeT)), types.NewTuple(v("", mathintType)), false)))
	}
	{
		// inmap(m, k) / sameslice(a, b)
		tk := types.NewTypeParam(types.NewTypeName(token.NoPos, nil, "K", nil), types.Universe.Lookup("comparable").Type())
		tv := types.NewTypeParam(types.NewTypeName(token.NoPos, nil, "V", nil), anyT)
		sig := types.NewSignatureType(nil, nil, []*types.TypeParam{tk, tv}, types.NewTuple(v("m", types.NewMap(tk, tv)), v("k", tk)), types.NewTuple(v("", bt)), false)
		types.Universe.Insert(types.NewFunc(token.NoPos, nil, "inmap", sig))
		te := types.NewTypeParam(types.NewTypeName(token.NoPos, nil, "E", nil), anyT)
		sig2 := types.NewSignatureType(nil, nil, []*types.TypeParam{te}, types.NewTuple(v("a", types.NewSlice(te)), v("b", types.NewSlice(te))), types.NewTuple(v("", bt)), false)
		types.Universe.Insert(types.NewFunc(token.NoPos, nil, "sameslice", sig2))
		ts := types.NewTypeParam(types.NewTypeName(token.NoPos, nil, "T", nil), anyT)
		sig3 := types.NewSignatureType(nil, nil, []*types.TypeParam{ts}, types.NewTuple(v("a", ts), v("b", ts)), types.NewTuple(v("", bt)), false)
		types.Universe.Insert(types.NewFunc(token.NoPos, nil, "same", sig3))
	}
}

func loadVC(patterns []string) (*VC, error) {
	vc := &VC{pkgs: map[string]*packages.Package{}, funcs: map[string]*FuncInfo{}, byShort: map[string]*FuncInfo{}, ifaceContracts: map[string]*Contract{}, ifaceFuncs: map[string]*FuncInfo{},
		errIDs: map[string]int64{}, typeIDs: map[string]int64{}, guards: map[string]*Guard{}}
	vc.fset = token.NewFileSet()
	env := []string{}
	for _, e := range os.Environ() {
		if strings.HasPrefix(e, "GOFLAGS=") || strings.HasPrefix(e, "GOPROXY=") || strings.HasPrefix(e, "GOTOOLCHAIN=") || strings.HasPrefix(e, "GOSUMDB=") {
			continue
		}
		env = append(env, e)
	}
	env = append(env, "GOFLAGS=-mod=mod", "GOPROXY=off")
	cfg := &packages.Config{
		Mode:       packages.NeedName | packages.NeedSyntax | packages.NeedTypes | packages.NeedTypesInfo | packages.NeedImports | packages.NeedFiles | packages.NeedCompiledGoFiles,
		Dir:        repoRoot,
		BuildFlags: []string{"-tags=verif"},
		Fset:       vc.fset,
		Env:        env,
		ParseFile: func(fset *token.FileSet, filename string, src []byte) (*ast.File, error) {
			return parser.ParseFile(fset, filename, src, parser.ParseComments|parser.SkipObjectResolution)
		},
	}
	pkgs, err := packages.Load(cfg, patterns...)
	if err != nil {
		return nil, err
	}
	for _, p := range pkgs {
		for _, e := range p.Errors {
			vc.loadErrors = append(vc.loadErrors, fmt.Sprintf("%s: %v", p.PkgPath, e))
		}
		vc.pkgs[p.PkgPath] = p
	}
	if len(vc.loadErrors) > 0 {
		return vc, fmt.Errorf("package load errors:\n  %s", strings.Join(vc.loadErrors, "\n  "))
	}
	// locate time.Time / Duration / error
	vc.errT = types.Universe.Lookup("error").Type()
	var timePkg *types.Package
	seen := map[*types.Package]bool{}
	var find func(p *types.Package)
	find = func(p *types.Package) {
		if p == nil || seen[p] || timePkg != nil {
			return
		}
		seen[p] = true
		if p.Path() == "time" {
			timePkg = p
			return
		}
		for _, q := range p.Imports() {
			find(q)
		}
	}
	for _, p := range pkgs {
		find(p.Types)
	}
	if timePkg != nil {
		vc.timeT = timePkg.Scope().Lookup("Time").Type()
		vc.durT = timePkg.Scope().Lookup("Duration").Type()
	}
	setupUniverse(vc.timeT)
	// index functions
	for _, p := range pkgs {
		for _, f := range p.Syntax {
			for _, d := range f.Decls {
				fd, ok := d.(*ast.FuncDecl)
				if !ok {
					continue
				}
				obj, ok := p.TypesInfo.Defs[fd.Name].(*types.Func)
				if !ok {
					continue
				}
				fi := &FuncInfo{Key: funcKey(obj), Short: shortName(obj), Decl: fd, Pkg: p, Obj: obj, File: f}
				vc.funcs[fi.Key] = fi
				vc.byShort[fi.Short] = fi
			}
		}
	}
	// contracts
	for _, p := range pkgs {
		for _, f := range p.Syntax {
			fn := vc.fset.Position(f.Pos()).Filename
			if filepath.Base(fn) != "contracts_verif.go" {
				continue
			}
			cons, lemmas, err := parseContractFile(vc.fset, f, p.PkgPath)
			if err != nil {
				vc.contractErrors = append(vc.contractErrors, err.Error())
				continue
			}
			for _, c := range cons {
				short := p.Types.Name() + "." + c.Target
				fi := vc.byShort[short]
				if fi == nil {
					// interface method contract?  pkg.(Iface).Method
					if vc.bindIfaceContract(p, c) {
						continue
					}
					vc.contractErrors = append(vc.contractErrors, fmt.Sprintf("%s: contract-binds: no function %s", c.File, short))
					continue
				}
				if fi.Con != nil {
					vc.contractErrors = append(vc.contractErrors, fmt.Sprintf("%s: duplicate contract for %s", c.File, short))
					continue
				}
				fi.Con = c
				vc.contracts = append(vc.contracts, c)
			}
			for _, l := range lemmas {
				l.File = fn
				vc.lemmas = append(vc.lemmas, l)
			}
		}
	}
	// compile all clauses up front so that binding errors surface as obligations
	for _, fi := range vc.sortedFuncs() {
		if fi.Con == nil {
			continue
		}
		vc.compileContract(fi)
	}
	return vc, nil
}

func (vc *VC) sortedFuncs() []*FuncInfo {
	var out []*FuncInfo
	for _, f := range vc.funcs {
		out = append(out, f)
	}
	sort.Slice(out, func(i, j int) bool { return out[i].Key < out[j].Key })
	return out
}

func (vc *VC) compileContract(fi *FuncInfo) {
	con := fi.Con
	var all []*Clause
	all = append(all, con.Entries...)
	all = append(all, con.Requires...)
	all = append(all, con.Ensures...)
	all = append(all, con.Modifies...)
	all = append(all, con.PanicsWhen...)
	if con.Measure != nil {
		all = append(all, con.Measure)
	}
	for _, cbs := range con.Callbacks {
		all = append(all, cbs...)
	}
	for _, sp := range con.Spawns {
		all = append(all, sp...)
	}
	if fi.Decl.Body != nil {
		for _, cs := range con.CallSites {
			all = append(all, cs...)
		}
	}
	var ords []string
	for o := range con.Loops {
		ords = append(ords, o)
	}
	sort.Strings(ords)
	for _, o := range ords {
		all = append(all, con.Loops[o]...)
	}
	for _, c := range all {
		if fi.Decl.Body == nil && (c.Kind == "invariant" || c.Kind == "decreases" || c.Kind == "iterensures") {
			c.compiled = true
			c.err = fmt.Errorf("%s: loop clause on a function without body", c.Line)
		} else {
			vc.compileClause(fi, c)
		}
		if c.err != nil {
			vc.contractErrors = append(vc.contractErrors, c.err.Error())
		}
	}
}

func (vc *VC) bindIfaceContract(p *packages.Package, c *Contract) bool {
	// Target "(Iface).Method"
	t := c.Target
	if !strings.HasPrefix(t, "(") {
		return false
	}
	i := strings.Index(t, ").")
	if i < 0 {
		return false
	}
	tn := strings.TrimPrefix(t[1:i], "*")
	mn := t[i+2:]
	obj := p.Types.Scope().Lookup(tn)
	if obj == nil {
		return false
	}
	it, ok := obj.Type().Underlying().(*types.Interface)
	if !ok {
		return false
	}
	for k := 0; k < it.NumMethods(); k++ {
		m := it.Method(k)
		if m.Name() != mn {
			continue
		}
		// find the method's field in the interface type declaration (for parameter names and type texts)
		var ft *ast.FuncType
		var file *ast.File
		for _, f := range p.Syntax {
			ast.Inspect(f, func(n ast.Node) bool {
				ts, ok := n.(*ast.TypeSpec)
				if !ok || ts.Name.Name != tn {
					return true
				}
				if itf, ok := ts.Type.(*ast.InterfaceType); ok {
					for _, fld := range itf.Methods.List {
						for _, nm := range fld.Names {
							if nm.Name == mn {
								ft, _ = fld.Type.(*ast.FuncType)
								file = f
							}
						}
					}
				}
				return false
			})
		}
		if ft == nil {
			return false
		}
		decl := &ast.FuncDecl{Name: ast.NewIdent(mn), Type: ft}
		decl.Name.NamePos = ft.Pos()
		fi := &FuncInfo{Key: funcKey(m), Short: p.Types.Name() + "." + c.Target, Decl: decl, Pkg: p, Obj: m, Con: c, File: file}
		vc.ifaceContracts[funcKey(m)] = c
		vc.ifaceFuncs[funcKey(m)] = fi
		c.Trusted = true
		c.iface = true
		vc.compileContract(fi)
		return true
	}
	return false
}

// ---------------------------------------------------------------------------------

type FuncResult struct {
	Func        string
	Obls        []*Obligation
	Unsupported string
	Assumed     map[string]bool
	HasContract bool
	Hash        string
}

// verifyFunc generates all obligations of one function.
func (vc *VC) verifyFunc(fi *FuncInfo) (res *FuncResult) {
	res = &FuncResult{Func: fi.Short, Assumed: map[string]bool{}, HasContract: fi.Con != nil}
	ex := &Exec{vc: vc, top: fi, siteSeen: map[string]int{}, assumed: res.Assumed}
	defer func() {
		if r := recover(); r != nil {
			if u, ok := r.(unsupported); ok {
				res.Unsupported = u.msg
				res.Obls = ex.obls
				return
			}
			panic(r)
		}
	}()
	if fi.Decl.Body == nil {
		res.Unsupported = "no body"
		return
	}
	if fi.Con != nil && fi.Con.Bounded != "" {
		ex.bounded = fi.Con.Bounded
	}
	st := newState()
	sig := fi.Obj.Type().(*types.Signature)
	f0 := &Frame{fn: fi, info: fi.Pkg.TypesInfo, pkg: fi.Pkg.Types, sig: sig, entry: map[string]Value{}, bind: map[string]Value{}}
	ex.frames = []*Frame{f0}
	st.defers = [][]deferred{nil}
	// symbolic parameters
	var args []Value
	var recv *Value
	if sig.Recv() != nil {
		v := namedValue("recv", sig.Recv().Type())
		st.assumeValid(v)
		recv = &v
	}
	for i := 0; i < sig.Params().Len(); i++ {
		p := sig.Params().At(i)
		name := p.Name()
		if name == "" || name == "_" {
			name = fmt.Sprintf("arg%d", i)
		}
		v := namedValue("p|"+name, p.Type())
		st.assumeValid(v)
		args = append(args, v)
	}
	f0.results = ex.bindParams(sig, fi.Decl.Type, fi.Decl.Recv, fi.Pkg.TypesInfo, recv, args, st)
	for n, v := range ex.paramBindings(fi, recv, args) {
		f0.bind[n] = v
	}
	// incoming references were allocated before entry
	for _, v := range append(append([]Value{}, args...), func() []Value {
		if recv != nil {
			return []Value{*recv}
		}
		return nil
	}()...) {
		for _, p := range sortedKeys(v.L) {
			t := v.L[p]
			if t.Sort == sortRef && (p == "" || strings.HasSuffix(p, ".ref")) {
				st.assume(mkCmp("le", t, st.alloc0))
			}
		}
	}
	if fi.Con != nil {
		for _, g := range fi.Con.Ghosts {
			gt := vc.ghostType(fi, g)
			gv := namedValue("ghost|"+g.Name, gt)
			st.assumeValid(gv)
			for _, p := range sortedKeys(gv.L) {
				t := gv.L[p]
				if t.Sort == sortRef && (p == "" || strings.HasSuffix(p, ".ref")) {
					st.assume(mkCmp("le", t, st.alloc0))
					st.assume(mkCmp("lt", mkInt(sortRef, 0), t))
					// ghost state is separate from every real argument
					for _, a := range args {
						for _, ap := range sortedKeys(a.L) {
							at := a.L[ap]
							if at.Sort == sortRef && (ap == "" || strings.HasSuffix(ap, ".ref")) {
								st.assume(mkNot(mkEq(t, at)))
							}
						}
					}
				}
			}
			f0.bind[g.Name] = gv
			f0.entry[g.Name] = gv
		}
	}
	f0.oldSt = st.clone()
	baseRI := &ReplayInfo{Fn: fi}
	{
		entry := st.clone()
		if recv != nil {
			baseRI.Params = append(baseRI.Params, replayParam{Name: "recv", T: recv.T, V: *recv, Heap: entry, Recv: true})
		}
		for i, a := range args {
			baseRI.Params = append(baseRI.Params, replayParam{Name: sig.Params().At(i).Name(), T: a.T, V: a, Heap: entry})
		}
	}
	defer func() {
		for _, o := range ex.obls {
			if o.Replay == nil {
				o.Replay = baseRI
			}
		}
		if res != nil && res.Obls == nil {
			res.Obls = ex.obls
		}
	}()
	if fi.Con != nil {
		for _, e := range fi.Con.Entries {
			v := ex.evalClauseIn(e, st, st, f0.bind)
			f0.entry[e.Name] = v
			f0.bind[e.Name] = v
		}
		ex.assuming++
		for _, c := range fi.Con.Requires {
			st.assume(ex.evalClause(c, st, st, f0.bind))
		}
		ex.assuming--
		f0.oldSt = st.clone()
		// cover: the precondition is satisfiable
		ex.obls = append(ex.obls, &Obligation{Name: fi.Short + "/cover:requires", Kind: "cover", Func: fi.Short, Goal: tFalse, Facts: append([]*Term(nil), st.pc...), Cover: true})
	}
	ex.execBlock(fi.Decl.Body.List, st)
	if !st.dead {
		var vals []Value
		if sig.Results().Len() > 0 {
			if f0.results == nil {
				st.dead = true
			} else {
				for _, o := range f0.results {
					vals = append(vals, st.env[o])
				}
			}
		}
		if !st.dead {
			ex.doReturn(st, vals)
		}
	}
	// postconditions at every return
	var reach []*Term
	for k, r := range f0.returns {
		var qf []*Term
		for _, f := range r.st.pc {
			if _, _, _, q := featureScan([]*Term{f}); !q {
				qf = append(qf, f)
			}
		}
		reach = append(reach, mkAnd(qf...))
		if fi.Con == nil {
			continue
		}
		bind := map[string]Value{}
		for n, v := range f0.bind {
			bind[n] = v
		}
		ex.bindResults(fi, bind, r.vals)
		for i, c := range fi.Con.Ensures {
			g := ex.simplifyGoal(r.st, ex.evalClause(c, r.st, f0.oldSt, bind))
			label := c.Label
			if label == "" {
				label = fmt.Sprintf("#%d", i)
			}
			ri := *baseRI
			ri.Results = r.vals
			parts := splitGoal(g)
			facts := append([]*Term(nil), r.st.pc...)
			for pk, pg := range parts {
				nm := fmt.Sprintf("%s/ensures:%s@return%d", fi.Short, label, k)
				if len(parts) > 1 {
					nm = fmt.Sprintf("%s.%d", nm, pk)
				}
				o := &Obligation{Name: nm, Kind: "ensures", Func: fi.Short, Goal: pg, Facts: facts, Clause: c.Text, Label: c.Label, Pos: c.Line, Bounded: ex.bounded, Replay: &ri}
				if pg.isTrue() {
					o.Status = "trivial"
				}
				ex.obls = append(ex.obls, o)
			}
		}
		if len(fi.Con.PanicsWhen) > 0 {
			var cs []*Term
			for _, c := range fi.Con.PanicsWhen {
				cs = append(cs, ex.evalClause(c, f0.oldSt, f0.oldSt, f0.bind))
			}
			g := mkNot(mkOr(cs...))
			ex.obls = append(ex.obls, &Obligation{Name: fmt.Sprintf("%s/panics-iff@return%d", fi.Short, k), Kind: "panics-iff", Func: fi.Short, Goal: g, Facts: append([]*Term(nil), r.st.pc...), Clause: "declared refusal conditions never return normally"})
		}
	}
	if fi.Con != nil && !fi.Con.noReturnOK {
		// cover: some return is reachable
		ex.obls = append(ex.obls, &Obligation{Name: fi.Short + "/cover:reach-end", Kind: "cover", Func: fi.Short, Goal: mkNot(mkOr(reach...)), Facts: nil, Cover: true})
	}
	res.Obls = ex.obls
	return res
}

// ---- lemmas ----

func (vc *VC) checkLemma(l *Lemma) (o *Obligation, err error) {
	defer func() {
		if r := recover(); r != nil {
			if u, ok := r.(unsupported); ok {
				err = fmt.Errorf("lemma %s: unsupported: %s", l.Name, u.msg)
				return
			}
			panic(r)
		}
	}()
	p := vc.pkgs[l.Pkg]
	var file *ast.File
	for _, f := range p.Syntax {
		if vc.fset.Position(f.Pos()).Filename == l.File {
			file = f
		}
	}
	if file == nil {
		return nil, fmt.Errorf("lemma %s: file not found", l.Name)
	}
	build := func(text string) (*Clause, error) {
		rt, err := rewriteSpec(text)
		if err != nil {
			return nil, err
		}
		src := "func(" + l.Params + ") bool { return " + rt + " }"
		e, err := parser.ParseExprFrom(vc.fset, "lemma:"+l.Name, src, 0)
		if err != nil {
			return nil, fmt.Errorf("lemma %s: %v", l.Name, err)
		}
		info := &types.Info{Types: map[ast.Expr]types.TypeAndValue{}, Uses: map[*ast.Ident]types.Object{}, Defs: map[*ast.Ident]types.Object{}, Selections: map[*ast.SelectorExpr]*types.Selection{}, Instances: map[*ast.Ident]types.Instance{}, Implicits: map[ast.Node]types.Object{}}
		var cerr error
		for _, f := range append([]*ast.File{file}, p.Syntax...) {
			info = &types.Info{Types: map[ast.Expr]types.TypeAndValue{}, Uses: map[*ast.Ident]types.Object{}, Defs: map[*ast.Ident]types.Object{}, Selections: map[*ast.SelectorExpr]*types.Selection{}, Instances: map[*ast.Ident]types.Instance{}, Implicits: map[ast.Node]types.Object{}}
			if cerr = types.CheckExpr(vc.fset, p.Types, f.Name.Pos(), e, info); cerr == nil {
				break
			}
		}
		if cerr != nil {
			return nil, fmt.Errorf("lemma %s: %v", l.Name, cerr)
		}
		c := &Clause{Kind: "lemma", Text: text, compiled: true, Lit: e.(*ast.FuncLit), Info: info, Pkg: p.Types, Params: map[string]types.Object{}, Line: l.Line}
		for _, f := range c.Lit.Type.Params.List {
			for _, n := range f.Names {
				c.Params[n.Name] = info.Defs[n]
			}
		}
		c.Expr = c.Lit.Body.List[0].(*ast.ReturnStmt).Results[0]
		return c, nil
	}
	ex := &Exec{vc: vc, siteSeen: map[string]int{}, assumed: map[string]bool{}}
	ex.top = &FuncInfo{Short: p.Types.Name() + ".lemma:" + l.Name, Pkg: p}
	st := newState()
	bind := map[string]Value{}
	var reqs, enss []*Clause
	for _, r := range l.Requires {
		c, err := build(r)
		if err != nil {
			return nil, err
		}
		reqs = append(reqs, c)
	}
	for _, r := range l.Ensures {
		c, err := build(r)
		if err != nil {
			return nil, err
		}
		enss = append(enss, c)
	}
	if len(enss) == 0 {
		return nil, fmt.Errorf("lemma %s has no ensures", l.Name)
	}
	for name, obj := range enss[0].Params {
		v := namedValue("l|"+name, obj.Type())
		st.assumeValid(v)
		bind[name] = v
	}
	ex.frames = []*Frame{{info: p.TypesInfo, pkg: p.Types, entry: map[string]Value{}, lit: true}}
	ex.assuming++
	for _, c := range reqs {
		st.assume(ex.evalClause(c, st, st, bind))
	}
	ex.assuming--
	var gs []*Term
	for _, c := range enss {
		gs = append(gs, ex.evalClause(c, st, st, bind))
	}
	ri := &ReplayInfo{Lemma: l}
	entry := st.clone()
	var names []string
	for name := range bind {
		names = append(names, name)
	}
	sort.Strings(names)
	for _, name := range names {
		ri.Params = append(ri.Params, replayParam{Name: name, T: bind[name].T, V: bind[name], Heap: entry})
	}
	return &Obligation{Name: p.Types.Name() + ".lemma:" + l.Name, Kind: "lemma", Func: "lemma:" + l.Name, Goal: mkAnd(gs...), Facts: st.pc, Clause: strings.Join(l.Ensures, " && "), Pos: l.Line, Replay: ri}, nil
}

// ---- lock-guarded state (declared with //@ guarded_by in a later version) ----

type Guard struct {
	Mutex string
}

func (ex *Exec) acquireGuarded(st *State, name string, n ast.Node) {}
func (ex *Exec) releaseGuarded(st *State, name string, n ast.Node) {}

// callIfaceModular: a call through an interface whose method carries an (assumed) contract.
// Every such call also increments the ghost counter calls("<Iface>.<Method>").
func (ex *Exec) callIfaceModular(con *Contract, fn *types.Func, recv *Value, args []Value, st *State, call *ast.CallExpr) []Value {
	fi := ex.vc.ifaceFuncs[funcKey(fn)]
	ex.note("interface method contract (assumed for every implementation): " + fi.Short)
	res := ex.callModular(fi, recv, args, st, call)
	ex.bumpCalls(st, ifaceCounterName(fi))
	return res
}

func ifaceCounterName(fi *FuncInfo) string {
	// "base/timebase.(SystemClock).Sleep" -> "SystemClock.Sleep"
	t := fi.Con.Target
	t = strings.TrimPrefix(t, "(")
	t = strings.Replace(t, ").", ".", 1)
	return strings.TrimPrefix(t, "*")
}

func (ex *Exec) bumpCalls(st *State, name string) {
	cur := ex.callsCounter(st, name)
	st.ghost["calls:"+name] = scalarV(mathintType, mkArith("add", cur.scalar(), mkInt(sortMath, 1)))
}

// callsCounter: ghost counter of calls through an interface method on this path. It starts at 0 at function entry;
// after a loop head (or any other havoc of ghost counters) a counter that was not materialised yet is arbitrary.
func (ex *Exec) callsCounter(st *State, name string) Value {
	k := "calls:" + name
	if v, ok := st.ghost[k]; ok {
		return v
	}
	v := scalarV(mathintType, mkInt(sortMath, 0))
	st.ghost[k] = v
	return v
}

// ghostType resolves the Go type text of a ghost parameter in the scope of the function's file.
func (vc *VC) ghostType(fi *FuncInfo, g GhostParam) types.Type {
	src := "func(" + g.Name + " " + g.Type + ") {}"
	e, err := parser.ParseExprFrom(vc.fset, "ghost", src, 0)
	if err != nil {
		unsupp("ghost parameter %s: %v", g.Name, err)
	}
	info := &types.Info{Types: map[ast.Expr]types.TypeAndValue{}, Defs: map[*ast.Ident]types.Object{}, Uses: map[*ast.Ident]types.Object{}}
	if err := types.CheckExpr(vc.fset, fi.Pkg.Types, fi.Decl.Name.Pos(), e, info); err != nil {
		unsupp("ghost parameter %s: %v", g.Name, err)
	}
	lit := e.(*ast.FuncLit)
	return info.Defs[lit.Type.Params.List[0].Names[0]].Type()
}
