package main

import (
	"crypto/sha256"
	"encoding/hex"
	"encoding/json"
	"flag"
	"fmt"
	"os"
	"path/filepath"
	"regexp"
	"sort"
	"strconv"
	"strings"
	"sync"
	"time"
)

type PropConfig struct {
	Functions []string          `json:"functions"`
	Lemmas    []string          `json:"lemmas"`
	Sweep     []string          `json:"sweep"`   // functions verified for safety only (no contract required)
	Level     string            `json:"level"`   // proof
	Notes     []string          `json:"notes"`   // clauses not decided, printed in evidence
	Replays   map[string]string `json:"replays"` // function -> replay driver template
}

type KnownFinding struct {
	Kind       string `json:"kind"` // known | fixed
	Property   string `json:"property"`
	Obligation string `json:"obligation"` // regexp on obligation name
	What       string `json:"what"`
	Commit     string `json:"commit,omitempty"`
}

var allPatterns = []string{"./base/...", "./core/...", "./net/...", "./driver/..."}

// repoRoot: the tree under verification (the must-fail corpus of the thorough tier runs on a scratch copy)
var repoRoot = func() string {
	if r := os.Getenv("GOVC_REPO"); r != "" {
		return strings.TrimRight(r, "/")
	}
	return "/repo"
}()

func main() {
	if len(os.Args) < 2 {
		fmt.Fprintln(os.Stderr, "usage: govc check|func|lemma ...")
		os.Exit(2)
	}
	cmd := os.Args[1]
	fs := flag.NewFlagSet(cmd, flag.ExitOnError)
	prop := fs.String("prop", "", "property id")
	tier := fs.String("tier", "quick", "quick|thorough")
	cfgPath := fs.String("config", "/verif/props.json", "property configuration")
	evDir := fs.String("evidence", "/verif/evidence", "evidence directory")
	knownPath := fs.String("known", "/verif/known_findings.json", "known findings")
	replayDir := fs.String("replays", "/verif/replays", "replay directory")
	fn := fs.String("fn", "", "function short name (func mode)")
	verbose := fs.Bool("v", false, "verbose")
	dump := fs.String("dump", "", "dump SMT of obligations matching this regexp")
	timeoutS := fs.Int("timeout", 0, "per-obligation timeout in seconds (default by tier)")
	only := fs.String("only", "", "func mode: solve only the obligations matching this regexp")
	fs.Parse(os.Args[2:])

	wd, err := os.MkdirTemp("", "govc-*")
	if err != nil {
		panic(err)
	}
	workDir = wd
	if k := os.Getenv("GOVC_KEEP"); k != "" {
		os.MkdirAll(k, 0o755)
		workDir = k
	} else {
		defer os.RemoveAll(wd)
	}
	// os.Exit skips deferred calls: every exit below goes through exit(), which removes the query directory first
	exit := func(code int) {
		if os.Getenv("GOVC_KEEP") == "" {
			os.RemoveAll(wd)
		}
		os.Exit(code)
	}

	switch cmd {
	case "func":
		vc, err := loadVC(allPatterns)
		if err != nil {
			fmt.Println("LOAD ERROR:", err)
			exit(2)
		}
		for _, e := range vc.contractErrors {
			fmt.Println("CONTRACT ERROR:", e)
		}
		to := 20 * time.Second
		if *timeoutS > 0 {
			to = time.Duration(*timeoutS) * time.Second
		}
		var obls []*Obligation
		for _, name := range strings.Split(*fn, ",") {
			if strings.Contains(name, "lemma:") {
				for _, l := range vc.lemmas {
					if vc.pkgs[l.Pkg].Types.Name()+".lemma:"+l.Name == name {
						o, err := vc.checkLemma(l)
						if err != nil {
							fmt.Println("LEMMA ERROR:", err)
							continue
						}
						obls = append(obls, o)
					}
				}
				continue
			}
			fi := vc.byShort[name]
			if fi == nil {
				fmt.Println("no such function", name)
				exit(2)
			}
			r := vc.verifyFunc(fi)
			if r.Unsupported != "" {
				fmt.Println("UNSUPPORTED:", name, r.Unsupported)
			}
			obls = append(obls, r.Obls...)
			if *verbose {
				for a := range r.Assumed {
					fmt.Println("  assumes:", a)
				}
			}
		}
		if *only != "" {
			re := regexp.MustCompile(*only)
			var sel []*Obligation
			for _, o := range obls {
				if re.MatchString(o.Name) {
					sel = append(sel, o)
				}
			}
			obls = sel
		}
		solveAll(obls, to)
		printObls(obls, true, *dump)
	case "check":
		exit(runCheck(*prop, *tier, *cfgPath, *evDir, *knownPath, *replayDir, *verbose, *timeoutS, *dump))
	default:
		fmt.Fprintln(os.Stderr, "unknown command", cmd)
		exit(2)
	}
}

func solveAll(obls []*Obligation, timeout time.Duration) {
	extra := strConstFacts()
	var wg sync.WaitGroup
	sem := make(chan struct{}, 8)
	for _, o := range obls {
		if o.Status == "trivial" || o.Goal == nil {
			continue
		}
		wg.Add(1)
		go func(o *Obligation) {
			defer wg.Done()
			sem <- struct{}{}
			defer func() { <-sem }()
			facts := queryFacts(o, extra)
			var vals []*Term
			for _, in := range o.Inputs {
				vals = append(vals, in.T)
			}
			to := timeout
			if o.Budget > 0 && o.Budget < to {
				to = o.Budget
			}
			if o.Cover {
				to = timeout / 2
				// satisfiability of quantified facts is beyond the solvers: the cover query keeps the quantifier-free facts only
				var qf []*Term
				for _, f := range facts {
					if _, _, _, q := featureScan([]*Term{f}); !q {
						qf = append(qf, f)
					}
				}
				facts = qf
			}
			o.Res = solve(Query{Facts: facts, Goal: o.Goal, Values: vals, Cover: o.Cover}, to)
			switch o.Res.Status {
			case "unsat":
				o.Status = "proved"
				if o.Cover {
					o.Status = "vacuous"
				}
			case "sat":
				o.Status = "refuted"
				if o.Cover {
					o.Status = "covered"
				}
			default:
				o.Status = "undecided"
				if o.Cover {
					o.Status = "cover-unknown"
				}
			}
		}(o)
	}
	wg.Wait()
}

func queryFacts(o *Obligation, extra []*Term) []*Term {
	facts := append(append([]*Term{}, extra...), o.Facts...)
	facts = append(facts, globalFactsFor(append(append([]*Term{}, o.Facts...), o.Goal))...)
	if !o.Cover {
		facts = append(facts, heapAxiomsFor(append(append([]*Term{}, o.Facts...), o.Goal))...)
	}
	return facts
}

func printObls(obls []*Obligation, all bool, dump string) {
	var re *regexp.Regexp
	if dump != "" {
		re = regexp.MustCompile(dump)
	}
	for _, o := range obls {
		if all || (o.Status != "proved" && o.Status != "trivial" && o.Status != "covered") {
			fmt.Printf("  %-10s %-70s %s/%s %.2fs  %s\n", o.Status, o.Name, o.Res.Solver, o.Res.Mode, o.Res.Time, o.Pos)
		}
		if re != nil && re.MatchString(o.Name) {
			facts := queryFacts(o, strConstFacts())
			for _, m := range []Mode{ModeInt, ModeBV, ModeReal} {
				s, err := buildScript(m, facts, o.Goal, nil, false)
				if err != nil {
					fmt.Println("   (", m, "inexpressible:", err, ")")
					continue
				}
				f := fmt.Sprintf("/tmp/dump_%s_%s.smt2", sanitizeFile(o.Name), m)
				os.WriteFile(f, []byte(s), 0o644)
				fmt.Println("   dumped", f)
			}
			fmt.Println("   attempts:", o.Res.Attempt)
		}
	}
}

func fileHash(path string) string {
	b, err := os.ReadFile(path)
	if err != nil {
		return ""
	}
	h := sha256.Sum256(b)
	return hex.EncodeToString(h[:8])
}

func runCheck(prop, tier, cfgPath, evDir, knownPath, replayDir string, verbose bool, timeoutS int, dump string) int {
	t0 := time.Now()
	seed := 0
	if s := os.Getenv("VERIF_SEED"); s != "" {
		seed, _ = strconv.Atoi(s)
	}
	cfgs := map[string]*PropConfig{}
	b, err := os.ReadFile(cfgPath)
	if err != nil {
		fmt.Println("cannot read config:", err)
		return 2
	}
	if err := json.Unmarshal(b, &cfgs); err != nil {
		fmt.Println("bad config:", err)
		return 2
	}
	cfg := cfgs[prop]
	if cfg == nil {
		fmt.Println("no configuration for property", prop)
		return 2
	}
	var known []KnownFinding
	if kb, err := os.ReadFile(knownPath); err == nil {
		json.Unmarshal(kb, &known)
	}
	// per-obligation budget: every claimed obligation is normally discharged in well under 20 s, but the time the
	// solvers need varies from run to run with the order in which facts are printed; the budget leaves a wide margin
	timeout := 120 * time.Second
	if tier == "thorough" {
		timeout = 300 * time.Second
	}
	if timeoutS > 0 {
		timeout = time.Duration(timeoutS) * time.Second
	}
	vc, err := loadVC(allPatterns)
	if err != nil {
		// the tree does not load: nothing can be proved; report as a machinery failure, not a verdict
		fmt.Println("LOAD ERROR:", err)
		return 2
	}
	var obls []*Obligation
	assumed := map[string]bool{}
	var funcsUnder []map[string]any
	unsupportedFns := []string{}
	pkgsUsed := map[string]bool{}
	addFunc := func(name string, sweep bool) {
		fi := vc.byShort[name]
		if fi == nil {
			obls = append(obls, &Obligation{Name: name + "/contract-binds", Kind: "binds", Func: name, Status: "undecided", Clause: "function under contract no longer exists"})
			return
		}
		pkgsUsed[fi.Pkg.PkgPath] = true
		r := vc.verifyFunc(fi)
		for a := range r.Assumed {
			assumed[a] = true
		}
		if r.Unsupported != "" {
			unsupportedFns = append(unsupportedFns, name+": "+r.Unsupported)
			obls = append(obls, &Obligation{Name: name + "/supported", Kind: "supported", Func: name, Status: "undecided", Clause: "construct outside the verified subset: " + r.Unsupported})
		}
		if !sweep && fi.Con == nil {
			obls = append(obls, &Obligation{Name: name + "/has-contract", Kind: "binds", Func: name, Status: "undecided", Clause: "no contract found for a function the property depends on"})
		}
		obls = append(obls, r.Obls...)
		p := vc.fset.Position(fi.Decl.Pos())
		funcsUnder = append(funcsUnder, map[string]any{"function": name, "file": strings.TrimPrefix(p.Filename, repoRoot+"/"), "line": p.Line, "contract": fi.Con != nil, "obligations": len(r.Obls), "source_hash": fileHash(p.Filename)})
	}
	for _, f := range cfg.Functions {
		addFunc(f, false)
	}
	for _, f := range cfg.Sweep {
		addFunc(f, true)
	}
	for _, ln := range cfg.Lemmas {
		found := false
		for _, l := range vc.lemmas {
			if vc.pkgs[l.Pkg].Types.Name()+".lemma:"+l.Name == ln {
				found = true
				o, err := vc.checkLemma(l)
				if err != nil {
					obls = append(obls, &Obligation{Name: ln, Kind: "lemma", Func: ln, Status: "undecided", Clause: err.Error()})
				} else {
					obls = append(obls, o)
				}
			}
		}
		if !found {
			obls = append(obls, &Obligation{Name: ln + "/contract-binds", Kind: "binds", Func: ln, Status: "undecided", Clause: "lemma not found"})
		}
	}
	for _, e := range vc.contractErrors {
		// contract errors in packages this property uses make the check undecided
		rel := false
		for p := range pkgsUsed {
			if strings.Contains(e, strings.TrimPrefix(p, "example.com/scion-time/")) {
				rel = true
			}
		}
		if rel {
			obls = append(obls, &Obligation{Name: "contract-binds:" + e, Kind: "binds", Status: "undecided", Clause: e})
		}
	}
	// a clause labelled "<name>#Cnn" belongs to property Cnn only: other properties that list the same function do not
	// re-check it
	{
		var keep []*Obligation
		for _, o := range obls {
			if i := strings.LastIndex(o.Label, "#C"); i >= 0 && o.Label[i+1:] != prop {
				continue
			}
			keep = append(keep, o)
		}
		obls = keep
	}
	// obligations that match a recorded known finding are expected to stay open: a short budget is enough to notice if
	// one of them has become provable
	for _, o := range obls {
		for _, k := range known {
			if k.Kind == "known" && k.Property == prop {
				if ok, _ := regexp.MatchString(k.Obligation, o.Name); ok {
					o.Budget = 5 * time.Second
				}
			}
		}
	}
	solveAll(obls, timeout)

	// classification
	var proved, trivial, refuted, undecided, covers, vacuous, coverUnknown int
	solverCount := map[string]int{}
	solverTime := 0.0
	var failing []*Obligation
	var boundedN int
	for _, o := range obls {
		switch o.Status {
		case "proved":
			proved++
			solverCount[o.Res.Solver+"/"+o.Res.Mode]++
			solverTime += o.Res.Time
			if o.Bounded != "" {
				boundedN++
			}
		case "trivial":
			trivial++
		case "covered":
			covers++
		case "vacuous":
			vacuous++
		case "cover-unknown":
			coverUnknown++
		case "refuted":
			refuted++
			failing = append(failing, o)
		default:
			undecided++
			failing = append(failing, o)
		}
	}
	if verbose || dump != "" {
		printObls(obls, verbose, dump)
	}
	// known findings
	var knownLines []string
	knownSeen := map[string]bool{}
	knownObls := map[string][]string{}
	var violations []*Obligation
	knownHit := 0
	for _, o := range failing {
		matched := false
		for _, k := range known {
			if k.Kind != "known" || k.Property != prop {
				continue
			}
			if ok, _ := regexp.MatchString(k.Obligation, o.Name); ok {
				matched = true
				line := fmt.Sprintf("KNOWN-FINDING: property=%s %s", prop, k.What)
				if !knownSeen[line] {
					knownSeen[line] = true
					knownLines = append(knownLines, line)
				}
				knownObls[line] = append(knownObls[line], o.Name)
			}
		}
		if matched {
			knownHit++
		} else {
			violations = append(violations, o)
		}
	}
	sort.Strings(knownLines)
	seenLine := map[string]bool{}
	for _, l := range knownLines {
		if !seenLine[l] {
			fmt.Printf("%s [%d obligation(s): %s]\n", l, len(knownObls[l]), strings.Join(knownObls[l], ", "))
			seenLine[l] = true
		}
	}
	exit := 0
	os.MkdirAll(filepath.Join(replayDir, prop), 0o755)
	violNames := []string{}
	for _, o := range violations {
		rp := filepath.Join(replayDir, prop, sanitizeFile(o.Name)+".json")
		confirmed := writeReplay(vc, o, rp, prop)
		suffix := ""
		if !confirmed {
			suffix = " no-failing-input-found"
		}
		fmt.Printf("VIOLATION property=%s replay=%s%s\n", prop, rp, suffix)
		fmt.Printf("  obligation %s: %s (%s) %s\n", o.Name, o.Status, o.Pos, o.Clause)
		violNames = append(violNames, o.Name)
		exit = 1
	}
	if vacuous > 0 {
		for _, o := range obls {
			if o.Status == "vacuous" {
				fmt.Printf("VACUOUS: %s: precondition/path unsatisfiable — the check proves nothing\n", o.Name)
			}
		}
		if exit == 0 {
			exit = 2
		}
	}
	claimed := proved + trivial - boundedN
	if claimed == 0 && exit == 0 {
		fmt.Println("VACUOUS: no obligations generated")
		exit = 2
	}
	// evidence
	samples := []any{}
	for _, o := range obls {
		if o.Status == "proved" && len(samples) < 6 {
			samples = append(samples, map[string]any{"obligation": o.Name, "kind": o.Kind, "clause": o.Clause, "goal": o.Goal.short(), "facts": len(o.Facts), "solver": o.Res.Solver + "/" + o.Res.Mode, "time_s": o.Res.Time})
		}
	}
	asm := []string{}
	for a := range assumed {
		asm = append(asm, a)
	}
	sort.Strings(asm)
	trusted := []string{"govc (this VC generator: its reading of the Go specification)", "go/types 1.24.2 (typed AST)", "z3 4.8.12, z3 5.1.0, cvc5 1.0.3 (first unsat answer wins)"}
	for _, fi := range vc.sortedFuncs() {
		if fi.Con != nil && fi.Con.Trusted {
			trusted = append(trusted, "trusted contract (body not verified): "+fi.Short)
		}
	}
	ev := map[string]any{
		"property_id": prop,
		"tier":        tier,
		"seed":        seed,
		"level":       "proof",
		"coverage": map[string]any{
			"obligations":               claimed + len(violations),
			"discharged":                claimed,
			"discharged_by_solver":      proved - boundedN,
			"discharged_by_simplifier":  trivial,
			"bounded_obligations":       boundedN,
			"known_finding_obligations": knownHit,
			"cover_obligations_sat":     covers,
			"cover_obligations_unknown": coverUnknown,
			"refuted":                   refuted,
			"undecided":                 undecided,
			"checker_cmd":               fmt.Sprintf("/verif/check %s --tier %s", prop, tier),
			"trusted_base":              trusted,
			"functions_under_contract":  funcsUnder,
			"solver_backends":           solverCount,
			"solver_time_s":             solverTime,
			"slowest_discharged":        slowest(obls, 5),
			"per_obligation_timeout_s":  timeout.Seconds(),
			"unsupported":               unsupportedFns,
			"samples":                   samples,
			"violating_obligations":     violNames,
			"not_decided_clauses":       cfg.Notes,
			"integer_semantics":         "exact: Int encoding with explicit wrap-around and bit-vector encoding, raced; float64 as SMT FloatingPoint 11 53",
		},
		"assumptions": asm,
		"wall_s":      time.Since(t0).Seconds(),
		"violations":  len(violations),
	}
	os.MkdirAll(evDir, 0o755)
	eb, _ := json.MarshalIndent(ev, "", " ")
	os.WriteFile(filepath.Join(evDir, prop+".json"), eb, 0o644)
	fmt.Printf("%s tier=%s: %d obligations (%d proved by solver, %d by simplifier, %d bounded), %d cover sat, %d known-finding, %d violations, %.1fs\n",
		prop, tier, len(obls), proved, trivial, boundedN, covers, knownHit, len(violations), time.Since(t0).Seconds())
	return exit
}

func sanitizeFile(s string) string {
	var sb strings.Builder
	for _, c := range s {
		if c >= 'a' && c <= 'z' || c >= 'A' && c <= 'Z' || c >= '0' && c <= '9' || c == '.' || c == '-' {
			sb.WriteRune(c)
		} else {
			sb.WriteRune('_')
		}
	}
	r := sb.String()
	if len(r) > 120 {
		h := sha256.Sum256([]byte(s))
		r = r[:100] + "_" + hex.EncodeToString(h[:6])
	}
	return r
}

// writeReplay records the failed obligation; returns true if a failing input was confirmed on the real code.
func writeReplay(vc *VC, o *Obligation, path, prop string) bool {
	rep := map[string]any{
		"property":   prop,
		"obligation": o.Name,
		"kind":       o.Kind,
		"function":   o.Func,
		"position":   o.Pos,
		"clause":     o.Clause,
		"status":     o.Status,
		"solver":     o.Res.Solver + "/" + o.Res.Mode,
		"attempts":   o.Res.Attempt,
		"output":     truncate(o.Res.Output, 4000),
	}
	confirmed := false
	if o.Status == "refuted" {
		confirmed = tryReplay(vc, o, rep)
	}
	rep["confirmed_on_real_code"] = confirmed
	b, _ := json.MarshalIndent(rep, "", " ")
	os.WriteFile(path, b, 0o644)
	return confirmed
}

func truncate(s string, n int) string {
	if len(s) > n {
		return s[:n] + "..."
	}
	return s
}

// slowest: the n discharged obligations that took the solvers longest (how far the claimed obligations are from the
// per-obligation budget).
func slowest(obls []*Obligation, n int) []map[string]any {
	var ps []*Obligation
	for _, o := range obls {
		if o.Status == "proved" || o.Status == "covered" {
			ps = append(ps, o)
		}
	}
	sort.Slice(ps, func(i, j int) bool { return ps[i].Res.Time > ps[j].Res.Time })
	var out []map[string]any
	for i, o := range ps {
		if i >= n {
			break
		}
		out = append(out, map[string]any{"obligation": o.Name, "solver": o.Res.Solver + "/" + o.Res.Mode, "time_s": o.Res.Time})
	}
	return out
}
