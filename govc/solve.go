package main

import (
	"bytes"
	"context"
	"crypto/sha256"
	"encoding/hex"
	"fmt"
	"os"
	"os/exec"
	"path/filepath"
	"strings"
	"sync"
	"time"
)

type SolverRes struct {
	Status  string // unsat | sat | unknown | timeout | error
	Solver  string
	Mode    string
	Time    float64
	Output  string
	Values  []string // get-value results (raw), aligned with requested values
	Script  string   // path
	Attempt []string // all attempts "solver/mode:status:time"
}

type solverSpec struct {
	name string
	cvc5 bool
	args func(timeout time.Duration, file string) []string
}

var solvers = []solverSpec{
	{"z3-new", false, func(t time.Duration, f string) []string {
		return []string{"z3-new", fmt.Sprintf("-T:%d", int(t.Seconds())+1), f}
	}},
	{"z3", false, func(t time.Duration, f string) []string {
		return []string{"z3", fmt.Sprintf("-T:%d", int(t.Seconds())+1), f}
	}},
	{"cvc5", true, func(t time.Duration, f string) []string {
		return []string{"cvc5", fmt.Sprintf("--tlimit=%d", t.Milliseconds()), "--fp-exp", f}
	}},
}

var workDir string
var solverSem = make(chan struct{}, 14)

func runOne(ctx context.Context, sp solverSpec, mode Mode, script string, timeout time.Duration) SolverRes {
	h := sha256.Sum256([]byte(script))
	file := filepath.Join(workDir, fmt.Sprintf("q_%s_%s_%s.smt2", hex.EncodeToString(h[:8]), sp.name, mode))
	os.WriteFile(file, []byte(script), 0o644)
	solverSem <- struct{}{}
	defer func() { <-solverSem }()
	if ctx.Err() != nil {
		return SolverRes{Status: "cancelled", Solver: sp.name, Mode: mode.String()}
	}
	cctx, cancel := context.WithTimeout(ctx, timeout+2*time.Second)
	defer cancel()
	args := sp.args(timeout, file)
	cmd := exec.CommandContext(cctx, args[0], args[1:]...)
	var out bytes.Buffer
	cmd.Stdout = &out
	cmd.Stderr = &out
	t0 := time.Now()
	cmd.Run()
	el := time.Since(t0).Seconds()
	o := out.String()
	first := strings.TrimSpace(strings.SplitN(o, "\n", 2)[0])
	r := SolverRes{Solver: sp.name, Mode: mode.String(), Time: el, Output: o, Script: file}
	switch first {
	case "unsat", "sat", "unknown", "timeout":
		r.Status = first
	default:
		if ctx.Err() != nil {
			r.Status = "cancelled"
		} else if cctx.Err() != nil || strings.Contains(o, "timeout") || strings.Contains(o, "interrupted") {
			r.Status = "timeout"
		} else {
			r.Status = "error"
		}
	}
	if r.Status == "sat" {
		rest := ""
		if i := strings.Index(o, "\n"); i >= 0 {
			rest = o[i+1:]
		}
		r.Values = parseGetValue(rest)
	}
	return r
}

// parseGetValue splits "((e v) (e v) ...)" into the v parts.
func parseGetValue(s string) []string {
	s = strings.TrimSpace(s)
	if !strings.HasPrefix(s, "(") {
		return nil
	}
	// tokenise into s-expressions at depth 1
	var out []string
	depth := 0
	start := -1
	inBar := false
	for i := 0; i < len(s); i++ {
		c := s[i]
		if c == '|' {
			inBar = !inBar
			continue
		}
		if inBar {
			continue
		}
		switch c {
		case '(':
			depth++
			if depth == 2 {
				start = i
			}
		case ')':
			if depth == 2 && start >= 0 {
				pair := s[start+1 : i]
				out = append(out, lastSexp(pair))
				start = -1
			}
			depth--
			if depth == 0 {
				return out
			}
		}
	}
	return out
}

// lastSexp returns the second s-expression of "e v".
func lastSexp(pair string) string {
	pair = strings.TrimSpace(pair)
	// skip first sexp
	i := 0
	skip := func() {
		for i < len(pair) && (pair[i] == ' ' || pair[i] == '\n' || pair[i] == '\t') {
			i++
		}
		if i >= len(pair) {
			return
		}
		if pair[i] == '(' {
			d := 0
			for ; i < len(pair); i++ {
				if pair[i] == '|' {
					for i++; i < len(pair) && pair[i] != '|'; i++ {
					}
					continue
				}
				if pair[i] == '(' {
					d++
				} else if pair[i] == ')' {
					d--
					if d == 0 {
						i++
						return
					}
				}
			}
		} else if pair[i] == '|' {
			for i++; i < len(pair) && pair[i] != '|'; i++ {
			}
			i++
		} else {
			for i < len(pair) && pair[i] != ' ' && pair[i] != '\n' {
				i++
			}
		}
	}
	skip()
	return strings.TrimSpace(pair[i:])
}

type Query struct {
	Facts  []*Term
	Goal   *Term
	Values []*Term
}

// symbolsOf collects variable and function names of a term.
func symbolsOf(t *Term, out map[string]bool, seen map[*Term]bool) {
	if seen[t] {
		return
	}
	seen[t] = true
	if t.Op == "var" || t.Op == "app" {
		out[t.Name] = true
	}
	for _, a := range t.Args {
		symbolsOf(a, out, seen)
	}
}

// pruneFacts keeps all quantifier-free facts and those quantified facts that mention a symbol of the goal.
// Dropping hypotheses is always sound for a proof (unsat); it keeps irrelevant quantifiers away from the solver.
func pruneFacts(facts []*Term, goal *Term) ([]*Term, bool) {
	gs := map[string]bool{}
	symbolsOf(goal, gs, map[*Term]bool{})
	var out []*Term
	dropped := false
	for _, f := range facts {
		if _, _, _, q := featureScan([]*Term{f}); !q {
			out = append(out, f)
			continue
		}
		fs := map[string]bool{}
		symbolsOf(f, fs, map[*Term]bool{})
		keep := false
		for n := range fs {
			if gs[n] && !strings.HasPrefix(n, "p|") && n != "alloc0" {
				keep = true
				break
			}
		}
		if keep {
			out = append(out, f)
		} else {
			dropped = true
		}
	}
	return out, dropped
}

// solve races the portfolio. expectSat: cover queries (a sat answer is the "good" one; no need for all solvers).
func solve(q Query, timeout time.Duration) SolverRes {
	math, bits, hasFP, quant := featureScan(append(append([]*Term{}, q.Facts...), q.Goal))
	type job struct {
		sp     solverSpec
		mode   Mode
		script string
	}
	var modes []Mode
	switch {
	case math:
		modes = []Mode{ModeInt}
	case bits && !quant:
		modes = []Mode{ModeBV, ModeInt}
	case quant && !bits:
		modes = []Mode{ModeInt}
	default:
		modes = []Mode{ModeInt, ModeBV}
	}
	if hasFP && !quant {
		modes = append(modes, ModeReal)
	}
	scripts := map[string]string{}
	var firstErr error
	for _, m := range modes {
		for _, cv := range []bool{false, true} {
			s, err := buildScript(m, q.Facts, q.Goal, q.Values, cv)
			if err != nil {
				firstErr = err
				continue
			}
			scripts[fmt.Sprintf("%s/%v", m, cv)] = s
		}
	}
	if len(scripts) == 0 {
		return SolverRes{Status: "error", Output: fmt.Sprint(firstErr)}
	}
	mkJobs := func(stage int) []job {
		var js []job
		for mi, m := range modes {
			for si, sp := range solvers {
				s, ok := scripts[fmt.Sprintf("%s/%v", m, sp.cvc5)]
				if !ok {
					continue
				}
				first := (mi == 0 && si == 0) || (mi == 1 && si == 1) || (len(modes) == 1 && si == 1) || (m == ModeReal && si == 0)
				if stage == 1 && !first {
					continue
				}
				js = append(js, job{sp, m, s})
			}
		}
		return js
	}
	// pruned variant: raced alongside in every stage (unsat answers only)
	var prunedJobs []job
	if quant {
		if pf, dropped := pruneFacts(q.Facts, q.Goal); dropped {
			for _, cv := range []bool{false, true} {
				if ps, err := buildScript(ModeInt, pf, q.Goal, nil, cv); err == nil {
					for _, sp := range solvers {
						if sp.cvc5 == cv {
							prunedJobs = append(prunedJobs, job{sp, ModePruned, ps})
						}
					}
				}
			}
		}
	}
	var attempts []string
	race := func(js []job, to time.Duration) *SolverRes {
		ctx, cancel := context.WithCancel(context.Background())
		defer cancel()
		ch := make(chan SolverRes, len(js))
		var wg sync.WaitGroup
		for _, j := range js {
			wg.Add(1)
			go func(j job) {
				defer wg.Done()
				ch <- runOne(ctx, j.sp, j.mode, j.script, to)
			}(j)
		}
		go func() { wg.Wait(); close(ch) }()
		var decided *SolverRes
		for r := range ch {
			attempts = append(attempts, fmt.Sprintf("%s/%s:%s:%.2fs", r.Solver, r.Mode, r.Status, r.Time))
			if r.Status == "sat" && r.Mode == "pruned" {
				r.Status = "unknown" // fewer hypotheses: a model of the pruned query is not a counterexample
			}
			if r.Status == "sat" && r.Mode == "real" {
				// the relaxed float model over-approximates: its models are not counterexamples
				r.Status = "unknown"
			}
			if decided == nil && (r.Status == "unsat" || r.Status == "sat") {
				rr := r
				decided = &rr
				cancel()
			}
		}
		return decided
	}
	st1 := 3 * time.Second
	if timeout < st1 {
		st1 = timeout
	}
	if d := race(append(mkJobs(1), prunedJobs...), st1); d != nil {
		d.Attempt = attempts
		return *d
	}
	if d := race(append(mkJobs(2), prunedJobs...), timeout); d != nil {
		d.Attempt = attempts
		return *d
	}
	return SolverRes{Status: "unknown", Attempt: attempts, Output: strings.Join(attempts, " ")}
}
