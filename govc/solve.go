package main

import (
	"bytes"
	"context"
	"crypto/sha256"
	"encoding/hex"
	"fmt"
	"os"
	"os/exec"
	"path/filepath"
	"strings"
	"sync"
	"time"
)

type SolverRes struct {
	Status  string // unsat | sat | unknown | timeout | error
	Solver  string
	Mode    string
	Time    float64
	Output  string
	Values  []string // get-value results (raw), aligned with requested values
	Script  string   // path
	Attempt []string // all attempts "solver/mode:status:time"
}

type solverSpec struct {
	name string
	cvc5 bool
	args func(timeout time.Duration, file string) []string
}

var solvers = []solverSpec{
	{"z3-new", false, func(t time.Duration, f string) []string {
		return []string{"z3-new", fmt.Sprintf("-T:%d", int(t.Seconds())+1), f}
	}},
	{"z3", false, func(t time.Duration, f string) []string {
		return []string{"z3", fmt.Sprintf("-T:%d", int(t.Seconds())+1), f}
	}},
	{"cvc5", true, func(t time.Duration, f string) []string {
		return []string{"cvc5", fmt.Sprintf("--tlimit=%d", t.Milliseconds()), "--fp-exp", f}
	}},
}

var workDir string
var solverSem = make(chan struct{}, 14)

func runOne(ctx context.Context, sp solverSpec, mode Mode, script string, timeout time.Duration) SolverRes {
	h := sha256.Sum256([]byte(script))
	file := filepath.Join(workDir, fmt.Sprintf("q_%s_%s_%s.smt2", hex.EncodeToString(h[:8]), sp.name, mode))
	os.WriteFile(file, []byte(script), 0o644)
	solverSem <- struct{}{}
	defer func() { <-solverSem }()
	if ctx.Err() != nil {
		return SolverRes{Status: "cancelled", Solver: sp.name, Mode: mode.String()}
	}
	cctx, cancel := context.WithTimeout(ctx, timeout+2*time.Second)
	defer cancel()
	args := sp.args(timeout, file)
	cmd := exec.CommandContext(cctx, args[0], args[1:]...)
	var out bytes.Buffer
	cmd.Stdout = &out
	cmd.Stderr = &out
	t0 := time.Now()
	cmd.Run()
	el := time.Since(t0).Seconds()
	o := out.String()
	// solver warnings (e.g. about rejected patterns) precede the answer
	for strings.HasPrefix(o, "WARNING") || strings.HasPrefix(o, "(warning") {
		i := strings.Index(o, "\n")
		if i < 0 {
			break
		}
		o = o[i+1:]
	}
	first := strings.TrimSpace(strings.SplitN(o, "\n", 2)[0])
	r := SolverRes{Solver: sp.name, Mode: mode.String(), Time: el, Output: o, Script: file}
	switch first {
	case "unsat", "sat", "unknown", "timeout":
		r.Status = first
	default:
		if ctx.Err() != nil {
			r.Status = "cancelled"
		} else if cctx.Err() != nil || strings.Contains(o, "timeout") || strings.Contains(o, "interrupted") {
			r.Status = "timeout"
		} else {
			r.Status = "error"
		}
	}
	if r.Status == "sat" {
		rest := ""
		if i := strings.Index(o, "\n"); i >= 0 {
			rest = o[i+1:]
		}
		r.Values = parseGetValue(rest)
	}
	return r
}

// parseGetValue splits "((e v) (e v) ...)" into the v parts.
func parseGetValue(s string) []string {
	s = strings.TrimSpace(s)
	if !strings.HasPrefix(s, "(") {
		return nil
	}
	// tokenise into s-expressions at depth 1
	var out []string
	depth := 0
	start := -1
	inBar := false
	for i := 0; i < len(s); i++ {
		c := s[i]
		if c == '|' {
			inBar = !inBar
			continue
		}
		if inBar {
			continue
		}
		switch c {
		case '(':
			depth++
			if depth == 2 {
				start = i
			}
		case ')':
			if depth == 2 && start >= 0 {
				pair := s[start+1 : i]
				out = append(out, lastSexp(pair))
				start = -1
			}
			depth--
			if depth == 0 {
				return out
			}
		}
	}
	return out
}

// lastSexp returns the second s-expression of "e v".
func lastSexp(pair string) string {
	pair = strings.TrimSpace(pair)
	// skip first sexp
	i := 0
	skip := func() {
		for i < len(pair) && (pair[i] == ' ' || pair[i] == '\n' || pair[i] == '\t') {
			i++
		}
		if i >= len(pair) {
			return
		}
		if pair[i] == '(' {
			d := 0
			for ; i < len(pair); i++ {
				if pair[i] == '|' {
					for i++; i < len(pair) && pair[i] != '|'; i++ {
					}
					continue
				}
				if pair[i] == '(' {
					d++
				} else if pair[i] == ')' {
					d--
					if d == 0 {
						i++
						return
					}
				}
			}
		} else if pair[i] == '|' {
			for i++; i < len(pair) && pair[i] != '|'; i++ {
			}
			i++
		} else {
			for i < len(pair) && pair[i] != ' ' && pair[i] != '\n' {
				i++
			}
		}
	}
	skip()
	return strings.TrimSpace(pair[i:])
}

type Query struct {
	Facts  []*Term
	Goal   *Term
	Values []*Term
	Cover  bool
}

// symbolsOf collects variable and function names of a term.
func symbolsOf(t *Term, out map[string]bool, seen map[*Term]bool) {
	if seen[t] {
		return
	}
	seen[t] = true
	if t.Op == "var" || t.Op == "app" {
		out[t.Name] = true
	}
	for _, a := range t.Args {
		symbolsOf(a, out, seen)
	}
}

// pruneFacts keeps all quantifier-free facts and those quantified facts that mention a symbol of the goal.
// Dropping hypotheses is always sound for a proof (unsat); it keeps irrelevant quantifiers away from the solver.
func pruneFacts(facts []*Term, goal *Term) ([]*Term, bool) {
	gs := map[string]bool{}
	symbolsOf(goal, gs, map[*Term]bool{})
	var out []*Term
	dropped := false
	for _, f := range facts {
		if _, _, _, q := featureScan([]*Term{f}); !q {
			out = append(out, f)
			continue
		}
		fs := map[string]bool{}
		symbolsOf(f, fs, map[*Term]bool{})
		keep := false
		for n := range fs {
			if gs[n] && !strings.HasPrefix(n, "p|") && n != "alloc0" {
				keep = true
				break
			}
		}
		if keep {
			out = append(out, f)
		} else {
			dropped = true
		}
	}
	return out, dropped
}

// coiFacts keeps the facts connected to the goal through shared symbols (transitively): the cone of influence.
// Dropping hypotheses is sound for unsat answers.
func coiFacts(facts []*Term, goal *Term) ([]*Term, bool) {
	syms := map[string]bool{}
	symbolsOf(goal, syms, map[*Term]bool{})
	fsyms := make([]map[string]bool, len(facts))
	for i, f := range facts {
		m := map[string]bool{}
		symbolsOf(f, m, map[*Term]bool{})
		fsyms[i] = m
	}
	in := make([]bool, len(facts))
	for changed := true; changed; {
		changed = false
		for i := range facts {
			if in[i] {
				continue
			}
			hit := false
			for n := range fsyms[i] {
				if syms[n] && n != "alloc0" {
					hit = true
					break
				}
			}
			if len(fsyms[i]) == 0 {
				hit = true
			}
			if hit {
				in[i] = true
				changed = true
				for n := range fsyms[i] {
					syms[n] = true
				}
			}
		}
	}
	var out []*Term
	dropped := false
	for i, f := range facts {
		if in[i] {
			out = append(out, f)
		} else {
			dropped = true
		}
	}
	return out, dropped
}

// solve races a portfolio of (hypothesis selection) x (encoding) x (solver). Every variant is sound for "unsat":
// dropping hypotheses only weakens what is assumed. A "sat" answer counts only for the full fact set in an exact encoding.
func solve(q Query, timeout time.Duration) SolverRes {
	// contextual simplification: for a goal H => G the query is facts /\ H /\ not G; the literals of H simplify every fact
	_, _, _, quant0 := featureScan(append(append([]*Term{}, q.Facts...), q.Goal))
	if !q.Cover && q.Goal.Op == "=>" && len(q.Values) == 0 && !quant0 {
		lits := map[*Term]bool{}
		unitLits([]*Term{q.Goal.Args[0]}, lits)
		if len(lits) > 0 {
			var nf []*Term
			for _, f := range q.Facts {
				g := simplifyUnder(f, lits)
				if !g.isTrue() {
					nf = append(nf, g)
				}
			}
			nf = append(nf, q.Goal.Args[0])
			q = Query{Facts: nf, Goal: simplifyUnder(q.Goal.Args[1], lits), Cover: q.Cover}
		}
	}
	_, bits, hasFP, quant := featureScan(append(append([]*Term{}, q.Facts...), q.Goal))
	goalMath, _, _, _ := featureScan([]*Term{q.Goal})
	noMath := func(fs []*Term) []*Term {
		var out []*Term
		for _, f := range fs {
			if m, _, _, _ := featureScan([]*Term{f}); !m {
				out = append(out, f)
			}
		}
		return out
	}
	type factSet struct {
		label string
		facts []*Term
		full  bool
	}
	sets := []factSet{{"full", q.Facts, true}}
	if !q.Cover {
		if cf, dropped := coiFacts(q.Facts, q.Goal); dropped {
			sets = append(sets, factSet{"coi", cf, false})
		}
		if quant {
			if pf, dropped := pruneFacts(q.Facts, q.Goal); dropped {
				sets = append(sets, factSet{"prq", pf, false})
			}
			// quantifier-free facts only (cone of influence of the goal): many goals do not need the quantified invariants
			var qf []*Term
			for _, f := range q.Facts {
				if _, _, _, qq := featureScan([]*Term{f}); !qq {
					qf = append(qf, f)
				}
			}
			if len(qf) < len(q.Facts) {
				cf, _ := coiFacts(qf, q.Goal)
				sets = append(sets, factSet{"qf", cf, false})
			}
		}
		{
			// strict: only the quantifier-free facts that talk exclusively about symbols of the goal
			gs := map[string]bool{}
			symbolsOf(q.Goal, gs, map[*Term]bool{})
			var strict []*Term
			for _, f := range q.Facts {
				if defFacts[f] {
					continue
				}
				if _, _, _, qq := featureScan([]*Term{f}); qq {
					continue
				}
				fsy := map[string]bool{}
				symbolsOf(f, fsy, map[*Term]bool{})
				sub := len(fsy) > 0
				for n := range fsy {
					if !gs[n] {
						sub = false
						break
					}
				}
				if sub {
					strict = append(strict, f)
				}
			}
			if len(strict) < len(q.Facts) {
				sets = append(sets, factSet{"strict", strict, false})
			}
		}
		if hasFP {
			var nd []*Term
			droppedDef := false
			for _, f := range q.Facts {
				if defFacts[f] {
					droppedDef = true
					continue
				}
				nd = append(nd, f)
			}
			// quantifier-free, without the definitions of float locals: lets the solvers use their bit-blasting tactics
			var qf []*Term
			goalHasMathSort := hasSort(q.Goal, SMath)
			var nolem []*Term
			for _, f := range nd {
				if lemmaFacts[f] {
					continue
				}
				if _, _, _, qq := featureScan([]*Term{f}); qq {
					continue
				}
				if !goalHasMathSort && (hasSort(f, SMath) || hasSort(f, SUn)) {
					continue
				}
				nolem = append(nolem, f)
			}
			if len(nolem) < len(nd) {
				cf, _ := coiFacts(nolem, q.Goal)
				sets = append(sets, factSet{"nolem", cf, false})
			}
			for _, f := range nd {
				if _, _, _, qq := featureScan([]*Term{f}); qq {
					continue
				}
				// facts about references / allocation (integer sort, uninterpreted functions) keep the solvers out of
				// their pure bit-vector/float tactics; a float goal that does not mention them does not need them
				if !goalHasMathSort && (hasSort(f, SMath) || hasSort(f, SUn)) {
					continue
				}
				qf = append(qf, f)
			}
			if droppedDef || len(qf) != len(q.Facts) {
				cf, _ := coiFacts(qf, q.Goal)
				sets = append(sets, factSet{"nodef", cf, false})
			}

		}
	}
	type job struct {
		sp     solverSpec
		label  string
		mode   Mode
		script string
		exact  bool // sat answers are counterexamples
		prio   int
	}
	var jobs []job
	seenScript := map[string]bool{}
	add := func(fsLabel string, facts []*Term, full bool, mode Mode, prio int) {
		fs := facts
		exact := full && mode != ModeReal
		if mode == ModeBV {
			if goalMath {
				return
			}
			nf := noMath(facts)
			if len(nf) != len(facts) {
				exact = false
			}
			fs = nf
		}
		for _, cv := range []bool{false, true} {
			sc, err := buildScript(mode, fs, q.Goal, q.Values, cv)
			if err != nil {
				continue
			}
			for si, sp := range solvers {
				if sp.cvc5 != cv {
					continue
				}
				key := sp.name + "|" + sc
				if seenScript[key] {
					continue
				}
				seenScript[key] = true
				p := prio
				if si == 1 && !hasFP {
					p++ // z3 4.8 joins in the second stage (except for float goals, where it is often the fastest)
				}
				jobs = append(jobs, job{sp, fsLabel + "-" + mode.String(), mode, sc, exact, p})
			}
		}
	}
	// job selection (prio 0 = first stage, 1 = second stage); everything else is left out to keep the load bounded
	_, _, goalFP, _ := featureScan([]*Term{q.Goal})
	for _, fs := range sets {
		switch {
		case hasFP && goalFP && !q.Cover:
			// float goals are expensive: a small fixed set of jobs, all in one stage
			switch fs.label {
			case "nodef":
				add(fs.label, fs.facts, fs.full, ModeBV, 0)
				add(fs.label, fs.facts, fs.full, ModeReal, 0)
			case "strict", "nolem":
				add(fs.label, fs.facts, fs.full, ModeBV, 0)
			case "full":
				if len(sets) == 1 {
					add(fs.label, fs.facts, fs.full, ModeBV, 0)
					add(fs.label, fs.facts, fs.full, ModeReal, 0)
					add(fs.label, fs.facts, fs.full, ModeInt, 0)
				} else {
					add(fs.label, fs.facts, fs.full, ModeBV, 2)
				}
			case "coi":
				haveNodef := false
				for _, x := range sets {
					if x.label == "nodef" {
						haveNodef = true
					}
				}
				if !haveNodef {
					add(fs.label, fs.facts, fs.full, ModeBV, 0)
				}
				add(fs.label, fs.facts, fs.full, ModeReal, 0)
			}
		default:
			base := 1
			if fs.label == "coi" || fs.label == "prq" || fs.label == "strict" || fs.label == "qf" || len(sets) == 1 {
				base = 0
			}
			if fs.label == "nodef" {
				continue
			}
			add(fs.label, fs.facts, fs.full, ModeInt, base)
			if bits || !quant {
				add(fs.label, fs.facts, fs.full, ModeBV, base)
			}
		}
	}
	if len(jobs) == 0 {
		return SolverRes{Status: "error", Output: "no expressible encoding"}
	}
	var attempts []string
	race := func(js []job, to time.Duration) *SolverRes {
		ctx, cancel := context.WithCancel(context.Background())
		defer cancel()
		ch := make(chan SolverRes, len(js))
		var wg sync.WaitGroup
		for _, j := range js {
			wg.Add(1)
			go func(j job) {
				defer wg.Done()
				r := runOne(ctx, j.sp, j.mode, j.script, to)
				r.Mode = j.label
				if r.Status == "sat" && !j.exact {
					r.Status = "unknown"
				}
				ch <- r
			}(j)
		}
		go func() { wg.Wait(); close(ch) }()
		var decided *SolverRes
		for r := range ch {
			if r.Status != "cancelled" {
				attempts = append(attempts, fmt.Sprintf("%s/%s:%s:%.2fs:%s", r.Solver, r.Mode, r.Status, r.Time, filepath.Base(r.Script)))
			}
			if decided == nil && (r.Status == "unsat" || r.Status == "sat") {
				rr := r
				decided = &rr
				cancel()
			}
		}
		return decided
	}
	st1 := 3 * time.Second
	if hasFP && goalFP {
		st1 = timeout
	}
	if timeout < st1 {
		st1 = timeout
	}
	var first, rest []job
	for _, j := range jobs {
		if j.prio == 0 {
			first = append(first, j)
		} else {
			rest = append(rest, j)
		}
	}
	if d := race(first, st1); d != nil {
		d.Attempt = attempts
		return *d
	}
	second := jobs
	if hasFP && goalFP {
		second = rest // the first-stage jobs already ran with the full budget
	}
	if len(second) > 0 {
		if d := race(second, timeout); d != nil {
			d.Attempt = attempts
			return *d
		}
	}
	return SolverRes{Status: "unknown", Attempt: attempts, Output: strings.Join(attempts, " ")}
}

func hasSort(t *Term, k SortKind) bool {
	seen := map[*Term]bool{}
	var rec func(t *Term) bool
	rec = func(t *Term) bool {
		if seen[t] {
			return false
		}
		seen[t] = true
		if t.Sort.K == k || t.Op == "app" && k == SUn {
			return true
		}
		for _, a := range t.Args {
			if rec(a) {
				return true
			}
		}
		return false
	}
	return rec(t)
}
