package main

import (
	"fmt"
	"go/ast"
	"go/constant"
	"go/token"
	"go/types"
	"math/big"
	"strings"
)

func (ex *Exec) eval(e ast.Expr, st *State) Value {
	vs := ex.evalMulti(e, st)
	if len(vs) != 1 {
		unsupp("expected single value from %s, got %d", ex.src(e), len(vs))
	}
	return vs[0]
}

func (ex *Exec) constValue(tv types.TypeAndValue, t types.Type) (Value, bool) {
	if tv.Value == nil {
		return Value{}, false
	}
	if t == nil {
		t = tv.Type
	}
	if b, ok := t.Underlying().(*types.Basic); ok && b.Info()&types.IsUntyped != 0 {
		t = types.Default(t)
	}
	if _, isIface := t.Underlying().(*types.Interface); isIface {
		t = types.Default(tv.Type)
		v, ok := ex.constValue(tv, t)
		return v, ok
	}
	ls := leavesOf(t)
	if len(ls) != 1 {
		return Value{}, false
	}
	s := ls[0].Sort
	switch tv.Value.Kind() {
	case constant.Bool:
		return scalarV(t, mkBool(constant.BoolVal(tv.Value))), true
	case constant.String:
		return scalarV(t, strConst(constant.StringVal(tv.Value))), true
	case constant.Int:
		if s.K == SFP {
			f, _ := constant.Float64Val(tv.Value)
			return scalarV(t, mkFP(f)), true
		}
		bi, ok := new(big.Int).SetString(tv.Value.ExactString(), 10)
		if !ok {
			return Value{}, false
		}
		return scalarV(t, mkIntBig(s, bi)), true
	case constant.Float:
		if s.K == SFP {
			f, _ := constant.Float64Val(tv.Value)
			return scalarV(t, mkFP(f)), true
		}
		if s.K == SGoInt || s.K == SMath {
			iv := constant.ToInt(tv.Value)
			if iv.Kind() == constant.Int {
				bi, ok := new(big.Int).SetString(iv.ExactString(), 10)
				if ok {
					return scalarV(t, mkIntBig(s, bi)), true
				}
			}
		}
	}
	return Value{}, false
}

func (ex *Exec) evalMulti(e ast.Expr, st *State) []Value {
	info := ex.info()
	if tv, ok := info.Types[e]; ok && tv.Value != nil {
		if v, ok := ex.constValue(tv, tv.Type); ok {
			return []Value{v}
		}
	}
	switch e := e.(type) {
	case *ast.ParenExpr:
		return ex.evalMulti(e.X, st)
	case *ast.Ident:
		return []Value{ex.evalIdent(e, st)}
	case *ast.BasicLit:
		unsupp("non-constant literal %s", ex.src(e))
	case *ast.CallExpr:
		return ex.evalCall(e, st)
	case *ast.BinaryExpr:
		return []Value{ex.evalBinary(e, st)}
	case *ast.UnaryExpr:
		return []Value{ex.evalUnary(e, st)}
	case *ast.SelectorExpr:
		return []Value{ex.evalSelector(e, st)}
	case *ast.IndexExpr:
		return ex.evalIndex(e, st, false)
	case *ast.SliceExpr:
		return []Value{ex.evalSliceExpr(e, st)}
	case *ast.StarExpr:
		lv := ex.lvalue(e, st)
		return []Value{st.readLV(lv)}
	case *ast.CompositeLit:
		return []Value{ex.evalComposite(e, st)}
	case *ast.FuncLit:
		return []Value{{T: info.TypeOf(e), L: map[string]*Term{"": freshVar("funclit", sortRef)}, Fn: &FuncVal{Lit: e, Info: info, Pkg: ex.frame().pkg}}}
	case *ast.TypeAssertExpr:
		return ex.evalTypeAssert(e, st, false)
	case *ast.KeyValueExpr:
		unsupp("key-value outside composite literal")
	}
	unsupp("expression %T: %s", e, ex.src(e))
	return nil
}

// evalCommaOk handles v, ok := m[k] / x.(T) / <-ch
func (ex *Exec) evalTuple2(e ast.Expr, st *State) []Value {
	switch x := e.(type) {
	case *ast.ParenExpr:
		return ex.evalTuple2(x.X, st)
	case *ast.IndexExpr:
		return ex.evalIndex(x, st, true)
	case *ast.TypeAssertExpr:
		return ex.evalTypeAssert(x, st, true)
	case *ast.UnaryExpr:
		if x.Op == token.ARROW {
			v := ex.recv(x, st)
			ok := freshVar("recvok", sortBool)
			return []Value{v, boolV(ok)}
		}
	}
	return ex.evalMulti(e, st)
}

func isPkgLevel(v *types.Var) bool {
	return v.Pkg() != nil && v.Parent() == v.Pkg().Scope()
}

func (ex *Exec) evalIdent(e *ast.Ident, st *State) Value {
	info := ex.info()
	obj := info.Uses[e]
	if obj == nil {
		obj = info.Defs[e]
	}
	switch o := obj.(type) {
	case *types.Nil:
		t := info.TypeOf(e)
		return zeroValue(t)
	case *types.Var:
		if isPkgLevel(o) {
			return ex.globalVar(o, st)
		}
		v, ok := st.env[o]
		if !ok {
			if gv, ok := ex.frame().entry[o.Name()]; ok {
				return gv
			}
			if ex.spec > 0 {
				// a postcondition that names a local which is not in scope at this return: the clause must hold for an
				// arbitrary value of it (conservative)
				fv := freshValue("outofscope!"+o.Name(), o.Type())
				st.assumeValid(fv)
				return fv
			}
			unsupp("unbound variable %s at %s", o.Name(), ex.pos(e))
		}
		return v
	case *types.Func:
		return Value{T: o.Type(), L: map[string]*Term{"": mkApp("func!"+o.FullName(), sortRef)}, Fn: &FuncVal{Fn: ex.vc.funcs[funcKey(o)]}}
	case *types.Const:
		tv := types.TypeAndValue{Type: o.Type(), Value: o.Val()}
		if v, ok := ex.constValue(tv, info.TypeOf(e)); ok {
			return v
		}
	}
	unsupp("identifier %s (%T)", e.Name, obj)
	return Value{}
}

func (ex *Exec) globalVar(o *types.Var, st *State) Value {
	name := o.Pkg().Path() + "." + o.Name()
	if ex.spec == 0 {
		for _, ld := range lockDirs[o.Pkg().Path()] {
			for _, g := range ld.Globals {
				if g == o.Name() {
					// lock discipline: guarded package-level state is only touched while the mutex is held
					ex.check(st, ex.lockHeld(st, ld.Mutex), "lock:guarded-access", nil, o.Name()+" (guarded by "+ld.Mutex+")")
				}
			}
		}
	}
	if _, ok := st.glob[name]; !ok {
		// error sentinels: distinct non-nil constants
		if isErrorType(o.Type()) {
			id := ex.vc.errSentinel(name)
			st.glob[name] = scalarV(o.Type(), mkInt(sortRef, id))
			return st.glob[name]
		}
	}
	return st.global(name, o.Type())
}

func isErrorType(t types.Type) bool {
	return types.Identical(t, types.Universe.Lookup("error").Type())
}

func (ex *Exec) evalSelector(e *ast.SelectorExpr, st *State) Value {
	info := ex.info()
	if sel, ok := info.Selections[e]; ok {
		switch sel.Kind() {
		case types.FieldVal:
			if ex.addressable(e.X) || isPointer(info.TypeOf(e.X)) {
				lv := ex.lvalue(e, st)
				return st.readLV(lv)
			}
			base := ex.eval(e.X, st)
			return ex.projectPath(base, sel, st)
		case types.MethodVal:
			recv := ex.eval(e.X, st)
			fn := sel.Obj().(*types.Func)
			return Value{T: info.TypeOf(e), L: map[string]*Term{"": freshVar("methodval", sortRef)}, Fn: &FuncVal{Fn: ex.vc.funcs[funcKey(fn)], Recv: &recv}}
		}
		unsupp("selection kind %v", sel.Kind())
	}
	// qualified identifier
	return ex.evalIdent(e.Sel, st)
}

func isPointer(t types.Type) bool {
	_, ok := t.Underlying().(*types.Pointer)
	return ok
}

// projectPath follows a selection's field index path on a struct value (non-addressable base).
func (ex *Exec) projectPath(base Value, sel *types.Selection, st *State) Value {
	cur := base
	for _, i := range sel.Index() {
		if p, ok := cur.T.Underlying().(*types.Pointer); ok {
			cur = ex.deref(cur, p.Elem(), st, nil)
		}
		s := cur.T.Underlying().(*types.Struct)
		f := s.Field(i)
		cur = cur.field("."+f.Name(), f.Type())
	}
	return cur
}

func (ex *Exec) deref(p Value, elem types.Type, st *State, n ast.Node) Value {
	if p.Loc != nil {
		return st.readLV(p.Loc)
	}
	ex.check(st, mkNot(mkEq(p.scalar(), mkInt(sortRef, 0))), "safety:nil", n, "")
	return st.readObj(elem, p.scalar())
}

func (ex *Exec) addressable(e ast.Expr) bool {
	info := ex.info()
	switch e := e.(type) {
	case *ast.Ident:
		_, ok := info.Uses[e].(*types.Var)
		if !ok {
			_, ok = info.Defs[e].(*types.Var)
		}
		return ok
	case *ast.ParenExpr:
		return ex.addressable(e.X)
	case *ast.StarExpr:
		return true
	case *ast.SelectorExpr:
		if sel, ok := info.Selections[e]; ok && sel.Kind() == types.FieldVal {
			return isPointer(info.TypeOf(e.X)) || ex.addressable(e.X) || sel.Indirect()
		}
		if v, ok := info.Uses[e.Sel].(*types.Var); ok {
			return isPkgLevel(v)
		}
		return false
	case *ast.IndexExpr:
		t := info.TypeOf(e.X)
		switch t.Underlying().(type) {
		case *types.Slice:
			return true
		case *types.Array:
			return ex.addressable(e.X)
		case *types.Pointer:
			return true
		case *types.Map:
			return false
		}
	case *ast.CompositeLit:
		return false
	}
	return false
}

// lvalue evaluates an addressable expression (or a map element) to a location.
func (ex *Exec) lvalue(e ast.Expr, st *State) *LValue {
	info := ex.info()
	switch e := e.(type) {
	case *ast.ParenExpr:
		return ex.lvalue(e.X, st)
	case *ast.Ident:
		obj := info.Uses[e]
		if obj == nil {
			obj = info.Defs[e]
		}
		v, ok := obj.(*types.Var)
		if !ok {
			unsupp("lvalue %s", e.Name)
		}
		if isPkgLevel(v) {
			name := v.Pkg().Path() + "." + v.Name()
			ex.globalVar(v, st)
			return &LValue{kind: lvGlobal, gname: name, rootT: v.Type()}
		}
		if _, ok := st.env[v]; !ok {
			if _, ok := ex.frame().entry[v.Name()]; ok {
				unsupp("assignment to contract entry value %s", v.Name())
			}
			if ex.spec > 0 {
				// see evalIdent: a local that is out of scope at this return is an arbitrary value
				fv := freshValue("outofscope!"+v.Name(), v.Type())
				st.assumeValid(fv)
				st.env[v] = fv
			} else {
				unsupp("unbound variable %s", v.Name())
			}
		}
		return &LValue{kind: lvVar, obj: v, rootT: v.Type()}
	case *ast.StarExpr:
		p := ex.eval(e.X, st)
		if p.T == nil {
			unsupp("dereference of a value without type: %s (dead=%v)", ex.src(e), st.dead)
		}
		pt := p.T.Underlying().(*types.Pointer)
		if p.Loc != nil {
			return p.Loc
		}
		ex.check(st, mkNot(mkEq(p.scalar(), mkInt(sortRef, 0))), "safety:nil", e, "")
		return &LValue{kind: lvObj, rootT: pt.Elem(), ref: p.scalar()}
	case *ast.SelectorExpr:
		sel, ok := info.Selections[e]
		if !ok {
			// qualified global
			v, ok := info.Uses[e.Sel].(*types.Var)
			if !ok {
				unsupp("lvalue %s", ex.src(e))
			}
			ex.globalVar(v, st)
			return &LValue{kind: lvGlobal, gname: v.Pkg().Path() + "." + v.Name(), rootT: v.Type()}
		}
		if sel.Kind() != types.FieldVal {
			unsupp("lvalue %s", ex.src(e))
		}
		var cur *LValue
		bt := info.TypeOf(e.X)
		if pt, ok := bt.Underlying().(*types.Pointer); ok {
			p := ex.eval(e.X, st)
			if p.Loc != nil {
				cur = p.Loc
			} else {
				ex.check(st, mkNot(mkEq(p.scalar(), mkInt(sortRef, 0))), "safety:nil", e, "")
				cur = &LValue{kind: lvObj, rootT: pt.Elem(), ref: p.scalar()}
			}
		} else if ex.addressable(e.X) {
			cur = ex.lvalue(e.X, st)
		} else {
			// non-addressable base: materialise into a temporary
			base := ex.eval(e.X, st)
			tmp := types.NewVar(e.Pos(), nil, "tmp!", base.T)
			st.env[tmp] = base
			cur = &LValue{kind: lvVar, obj: tmp, rootT: base.T}
		}
		idx := sel.Index()
		for _, i := range idx {
			t := cur.typ()
			if pt, ok := t.Underlying().(*types.Pointer); ok {
				// embedded pointer: dereference
				p := st.readLV(cur)
				if p.Loc != nil {
					cur = p.Loc
				} else {
					ex.check(st, mkNot(mkEq(p.scalar(), mkInt(sortRef, 0))), "safety:nil", e, "")
					cur = &LValue{kind: lvObj, rootT: pt.Elem(), ref: p.scalar()}
				}
				t = pt.Elem()
			}
			s := t.Underlying().(*types.Struct)
			f := s.Field(i)
			cur = cur.extend(step{field: "." + f.Name(), t: f.Type()})
		}
		return cur
	case *ast.IndexExpr:
		t := info.TypeOf(e.X)
		switch u := t.Underlying().(type) {
		case *types.Slice:
			sv := ex.eval(e.X, st)
			i := ex.evalIndexTerm(e.Index, st)
			ex.checkIndex(st, i, sv.L[".len"], e)
			return &LValue{kind: lvElem, rootT: u.Elem(), ref: sv.L[".ref"], idx: idxAdd(sv.L[".off"], i)}
		case *types.Array:
			base := ex.lvalue(e.X, st)
			i := ex.evalIndexTerm(e.Index, st)
			ex.checkIndex(st, i, mkInt(sortInt, u.Len()), e)
			return base.extend(step{idx: i, t: u.Elem()})
		case *types.Pointer:
			arr, ok := u.Elem().Underlying().(*types.Array)
			if !ok {
				unsupp("index of pointer to %s", u.Elem())
			}
			p := ex.eval(e.X, st)
			var base *LValue
			if p.Loc != nil {
				base = p.Loc
			} else {
				ex.check(st, mkNot(mkEq(p.scalar(), mkInt(sortRef, 0))), "safety:nil", e, "")
				base = &LValue{kind: lvObj, rootT: u.Elem(), ref: p.scalar()}
			}
			i := ex.evalIndexTerm(e.Index, st)
			ex.checkIndex(st, i, mkInt(sortInt, arr.Len()), e)
			return base.extend(step{idx: i, t: arr.Elem()})
		case *types.Map:
			mv := ex.eval(e.X, st)
			k := ex.convertTo(ex.eval(e.Index, st), u.Key(), st)
			return &LValue{kind: lvMapElem, rootT: t, ref: mv.scalar(), idx: k.scalar()}
		}
	}
	unsupp("lvalue %T %s", e, ex.src(e))
	return nil
}

func (ex *Exec) evalIndexTerm(e ast.Expr, st *State) *Term {
	v := ex.eval(e, st)
	t := v.scalar()
	if t.Sort.K == SGoInt && !sameSort(t.Sort, sortInt) {
		// index of any integer type: value-preserving widening; unsigned 64-bit values beyond MaxInt64 fail the bound check anyway
		if !t.Sort.Signed && t.Sort.W == 64 {
			ex.check(st, mkCmp("le", t, mkIntBig(t.Sort, sortInt.hi())), "safety:index", e, "")
		}
		t = mkConv(t, sortInt)
	}
	return t
}

func (ex *Exec) checkIndex(st *State, i, n *Term, node ast.Node) {
	ex.check(st, mkAnd(mkCmp("le", mkInt(sortInt, 0), i), mkCmp("lt", i, n)), "safety:index", node, "")
}

// assign writes v to lv, with frame and map-nil checks.
func (ex *Exec) assign(lv *LValue, v Value, st *State, n ast.Node) {
	ex.frameCheck(lv, st, n)
	if lv.kind == lvMapElem && len(lv.steps) == 0 {
		ex.check(st, mkNot(mkEq(lv.ref, mkInt(sortRef, 0))), "safety:nilmap", n, "")
		st.mapWrite(lv.rootT, lv.ref, lv.idx, v)
		return
	}
	if lv.kind == lvMapElem {
		unsupp("assignment to field of map element")
	}
	st.writeLV(lv, v)
}

func (ex *Exec) evalIndex(e *ast.IndexExpr, st *State, commaOk bool) []Value {
	info := ex.info()
	t := info.TypeOf(e.X)
	if tv, ok := info.Types[e.X]; ok && !tv.IsValue() {
		unsupp("generic instantiation %s", ex.src(e))
	}
	switch u := t.Underlying().(type) {
	case *types.Map:
		mv := ex.eval(e.X, st)
		k := ex.convertTo(ex.eval(e.Index, st), u.Key(), st).scalar()
		ref := mv.scalar()
		has := mkAnd(mkNot(mkEq(ref, mkInt(sortRef, 0))), st.mapHas(t, ref, k))
		stored := st.mapRead(t, ref, k)
		z := zeroValue(u.Elem())
		out := Value{T: u.Elem(), L: map[string]*Term{}}
		for _, p := range sortedKeys(z.L) {
			out.L[p] = mkIte(has, stored.L[p], z.L[p])
		}
		st.assumeValid(out)
		if commaOk {
			return []Value{out, boolV(has)}
		}
		return []Value{out}
	case *types.Basic: // string
		s := ex.eval(e.X, st)
		i := ex.evalIndexTerm(e.Index, st)
		ex.checkIndex(st, i, mkApp("strlen", sortInt, s.scalar()), e)
		return []Value{scalarV(types.Typ[types.Byte], mkApp("strat", goInt(8, false), s.scalar(), i))}
	case *types.Array:
		if !ex.addressable(e.X) {
			base := ex.eval(e.X, st)
			i := ex.evalIndexTerm(e.Index, st)
			ex.checkIndex(st, i, mkInt(sortInt, u.Len()), e)
			return []Value{base.index(u.Elem(), i)}
		}
	}
	lv := ex.lvalue(e, st)
	return []Value{st.readLV(lv)}
}

func (ex *Exec) evalSliceExpr(e *ast.SliceExpr, st *State) Value {
	info := ex.info()
	t := info.TypeOf(e.X)
	zero := mkInt(sortInt, 0)
	idx := func(x ast.Expr, def *Term) *Term {
		if x == nil {
			return def
		}
		return ex.evalIndexTerm(x, st)
	}
	switch u := t.Underlying().(type) {
	case *types.Slice:
		sv := ex.eval(e.X, st)
		lo := idx(e.Low, zero)
		hi := idx(e.High, sv.L[".len"])
		mx := idx(e.Max, sv.L[".cap"])
		ex.check(st, mkAnd(mkCmp("le", zero, lo), mkCmp("le", lo, hi), mkCmp("le", hi, mx), mkCmp("le", mx, sv.L[".cap"])), "safety:slice", e, "")
		return Value{T: info.TypeOf(e), L: map[string]*Term{".ref": sv.L[".ref"], ".off": idxAdd(sv.L[".off"], lo), ".len": idxSub(hi, lo), ".cap": idxSub(mx, lo)}}
	case *types.Basic:
		s := ex.eval(e.X, st)
		n := mkApp("strlen", sortInt, s.scalar())
		lo := idx(e.Low, zero)
		hi := idx(e.High, n)
		ex.check(st, mkAnd(mkCmp("le", zero, lo), mkCmp("le", lo, hi), mkCmp("le", hi, n)), "safety:slice", e, "")
		r := mkApp("substr", sortStr, s.scalar(), lo, hi)
		st.assume(mkEq(mkApp("strlen", sortInt, r), idxSub(hi, lo)))
		return scalarV(info.TypeOf(e), r)
	case *types.Array, *types.Pointer:
		// slicing an array: the array must live in the heap to be shared; copy semantics are wrong otherwise.
		var arrT *types.Array
		var lv *LValue
		if pt, ok := u.(*types.Pointer); ok {
			arrT = pt.Elem().Underlying().(*types.Array)
			p := ex.eval(e.X, st)
			if p.Loc != nil {
				lv = p.Loc
			} else {
				lv = &LValue{kind: lvObj, rootT: pt.Elem(), ref: p.scalar()}
			}
		} else {
			arrT = u.(*types.Array)
			lv = ex.lvalue(e.X, st)
		}
		// model: a fresh region initialised with the array contents; writes through the slice are NOT reflected
		// back into the array (noted as unsupported if the slice is written).
		av := st.readLV(lv)
		n := mkInt(sortInt, arrT.Len())
		lo := idx(e.Low, zero)
		hi := idx(e.High, n)
		ex.check(st, mkAnd(mkCmp("le", zero, lo), mkCmp("le", lo, hi), mkCmp("le", hi, n)), "safety:slice", e, "")
		ref := st.newRef()
		for _, l := range leavesOf(arrT.Elem()) {
			st.setRegionArr(arrT.Elem(), l, ref, av.L["[]"+l.Path])
		}
		ex.note("slicing a fixed-size array creates a snapshot region (aliasing between the array and the slice is not modelled)")
		return Value{T: info.TypeOf(e), L: map[string]*Term{".ref": ref, ".off": lo, ".len": idxSub(hi, lo), ".cap": idxSub(n, lo)}}
	}
	unsupp("slice expression on %s", t)
	return Value{}
}

func (ex *Exec) evalUnary(e *ast.UnaryExpr, st *State) Value {
	info := ex.info()
	switch e.Op {
	case token.AND:
		if cl, ok := e.X.(*ast.CompositeLit); ok {
			v := ex.evalComposite(cl, st)
			ref := st.newRef()
			st.writeObj(v.T, ref, v)
			return scalarV(info.TypeOf(e), ref)
		}
		lv := ex.lvalue(e.X, st)
		if lv.kind == lvObj && len(lv.steps) == 0 {
			return scalarV(info.TypeOf(e), lv.ref)
		}
		return Value{T: info.TypeOf(e), L: map[string]*Term{"": freshVar("locptr", sortRef)}, Loc: lv}
	case token.ARROW:
		return ex.recv(e, st)
	}
	x := ex.eval(e.X, st)
	switch e.Op {
	case token.NOT:
		return boolV(mkNot(x.scalar()))
	case token.SUB:
		t := x.scalar()
		if t.Sort.K == SFP {
			return scalarV(x.T, mk("fneg", sortFP, t))
		}
		return scalarV(x.T, mkNeg(t))
	case token.ADD:
		return x
	case token.XOR:
		t := x.scalar()
		if t.isConst() {
			return scalarV(x.T, mkIntBig(t.Sort, new(big.Int).Not(t.Val)))
		}
		return scalarV(x.T, mk("bnot", t.Sort, t))
	}
	unsupp("unary %s", e.Op)
	return Value{}
}

func (ex *Exec) recv(e *ast.UnaryExpr, st *State) Value {
	ch := ex.eval(e.X, st)
	ct := ch.T.Underlying().(*types.Chan)
	v := freshValue("recv", ct.Elem())
	st.assumeValid(v)
	ex.note("channel receive yields an arbitrary value of the element type")
	return v
}

func (ex *Exec) evalBinary(e *ast.BinaryExpr, st *State) Value {
	info := ex.info()
	switch e.Op {
	case token.LAND, token.LOR:
		a := ex.eval(e.X, st).scalar()
		// short circuit: evaluate rhs under the guard; facts learned there are kept under the guard
		sub := st.clone()
		g := a
		if e.Op == token.LOR {
			g = mkNot(a)
		}
		sub.assume(g)
		if sub.dead {
			// the right operand is never evaluated
			return boolV(a)
		}
		n0 := len(sub.pc)
		b := ex.eval(e.Y, sub).scalar()
		if !sub.dead {
			gg := g
			if ex.spec > 0 {
				// specification expressions: quantified conjuncts of the guard are dropped (the facts learned on the right are
				// validity facts of memory reads and postconditions of pure specification calls; a quantifier in the
				// antecedent of such a fact only obstructs the solvers)
				gg = qfPart(g)
			}
			for _, f := range sub.pc[n0:] {
				st.assume(mkImplies(gg, f))
			}
			st.alloc = mkIte(g, sub.alloc, st.alloc)
		}
		// side effects of the rhs on variables or the heap are not supported (none occur in the code under contract)
		if e.Op == token.LAND {
			return boolV(mkAnd(a, b))
		}
		return boolV(mkOr(a, b))
	}
	x := ex.eval(e.X, st)
	y := ex.eval(e.Y, st)
	return ex.binop(e.Op, x, y, info.TypeOf(e), st, e)
}

func (ex *Exec) equal(x, y Value) *Term {
	if len(x.L) == 0 {
		return tTrue
	}
	var cs []*Term
	for _, p := range x.paths() {
		a, b := x.L[p], y.L[p]
		if b == nil {
			panic(fmt.Sprintf("equal: leaf %s missing (%s vs %s)", p, x.T, y.T))
		}
		if a.Sort.K == SArray {
			// fixed-size array: compare element-wise over its length
			n := arrayLenAt(x.T, p)
			if n < 0 || n > 64 {
				unsupp("comparison of large arrays")
			}
			for i := int64(0); i < n; i++ {
				ix := mkInt(sortInt, i)
				cs = append(cs, mkEq(mkSelect(a, ix), mkSelect(b, ix)))
			}
			continue
		}
		cs = append(cs, mkEq(a, b))
	}
	return mkAnd(cs...)
}

// arrayLenAt finds the length of the (single-level) array enclosing leaf path p in type t.
func arrayLenAt(t types.Type, p string) int64 {
	cur := t
	rest := p
	for rest != "" {
		switch u := cur.Underlying().(type) {
		case *types.Array:
			if strings.HasPrefix(rest, "[]") {
				if strings.Contains(rest[2:], "[]") {
					return -1
				}
				return u.Len()
			}
			return -1
		case *types.Struct:
			found := false
			for i := 0; i < u.NumFields(); i++ {
				f := u.Field(i)
				pre := "." + f.Name()
				if rest == pre || strings.HasPrefix(rest, pre+".") || strings.HasPrefix(rest, pre+"[") {
					cur = f.Type()
					rest = rest[len(pre):]
					found = true
					break
				}
			}
			if !found {
				return -1
			}
		default:
			return -1
		}
	}
	if a, ok := cur.Underlying().(*types.Array); ok {
		return a.Len()
	}
	return -1
}

func (ex *Exec) binop(op token.Token, x, y Value, rt types.Type, st *State, n ast.Node) Value {
	switch op {
	case token.EQL:
		y = ex.convertTo(y, x.T, st)
		return boolV(ex.equal(x, y))
	case token.NEQ:
		y = ex.convertTo(y, x.T, st)
		return boolV(mkNot(ex.equal(x, y)))
	}
	a := x.scalar()
	switch op {
	case token.SHL, token.SHR:
		c := y.scalar()
		if c.Sort.K != SGoInt {
			unsupp("shift count sort")
		}
		if c.Sort.Signed {
			ex.check(st, mkCmp("le", mkInt(c.Sort, 0), c), "safety:shift", n, "")
		}
		o := "shl"
		if op == token.SHR {
			o = "shr"
		}
		return scalarV(x.T, mkShift(o, a, c))
	}
	b := y.scalar()
	if !sameSort(a.Sort, b.Sort) {
		// untyped constant operands were typed by the checker; remaining mismatches are mathint/int mixes in specs
		if a.Sort.K == SMath && b.Sort.K == SGoInt {
			b = mkConv(b, sortMath)
		} else if b.Sort.K == SMath && a.Sort.K == SGoInt {
			a = mkConv(a, sortMath)
			x = scalarV(y.T, a)
		} else if a.isConst() {
			a = mkConv(a, b.Sort)
			x = scalarV(y.T, a)
		} else if b.isConst() {
			b = mkConv(b, a.Sort)
		} else {
			unsupp("binary %s on %s and %s (%s)", op, a.Sort, b.Sort, ex.src(n))
		}
	}
	if a.Sort.K == SFP {
		switch op {
		case token.ADD:
			return scalarV(x.T, mk("fadd", sortFP, a, b))
		case token.SUB:
			return scalarV(x.T, mk("fsub", sortFP, a, b))
		case token.MUL:
			return scalarV(x.T, mk("fmul", sortFP, a, b))
		case token.QUO:
			return scalarV(x.T, mk("fdiv", sortFP, a, b))
		case token.LSS:
			return boolV(mkCmp("lt", a, b))
		case token.LEQ:
			return boolV(mkCmp("le", a, b))
		case token.GTR:
			return boolV(mkCmp("lt", b, a))
		case token.GEQ:
			return boolV(mkCmp("le", b, a))
		}
		unsupp("float op %s", op)
	}
	if a.Sort == sortStr || a.Sort.K == SUn {
		switch op {
		case token.ADD:
			r := mkApp("strcat", sortStr, a, b)
			st.assume(mkEq(mkApp("strlen", sortInt, r), mkArith("add", mkApp("strlen", sortInt, a), mkApp("strlen", sortInt, b))))
			return scalarV(x.T, r)
		}
		unsupp("string op %s", op)
	}
	switch op {
	case token.ADD:
		return scalarV(x.T, mkArith("add", a, b))
	case token.SUB:
		return scalarV(x.T, mkArith("sub", a, b))
	case token.MUL:
		return scalarV(x.T, mkArith("mul", a, b))
	case token.QUO, token.REM:
		ex.check(st, mkNot(mkEq(b, mkInt(b.Sort, 0))), "safety:div", n, "")
		o := "div"
		if op == token.REM {
			o = "rem"
		}
		return scalarV(x.T, mkArith(o, a, b))
	case token.AND:
		return scalarV(x.T, mkArith("band", a, b))
	case token.OR:
		return scalarV(x.T, mkArith("bor", a, b))
	case token.XOR:
		return scalarV(x.T, mkArith("bxor", a, b))
	case token.AND_NOT:
		return scalarV(x.T, mkArith("bandnot", a, b))
	case token.LSS:
		return boolV(mkCmp("lt", a, b))
	case token.LEQ:
		return boolV(mkCmp("le", a, b))
	case token.GTR:
		return boolV(mkCmp("lt", b, a))
	case token.GEQ:
		return boolV(mkCmp("le", b, a))
	}
	unsupp("binary op %s", op)
	return Value{}
}

// convertTo adapts a value to a target type (assignability conversions: concrete -> interface, untyped nil, named/unnamed).
func (ex *Exec) convertTo(v Value, t types.Type, st *State) Value {
	if t == nil || v.T == nil {
		return v
	}
	if types.Identical(v.T, t) {
		return v
	}
	if b, ok := v.T.(*types.Basic); ok && b.Kind() == types.UntypedNil {
		return zeroValue(t)
	}
	_, toIface := t.Underlying().(*types.Interface)
	_, fromIface := v.T.Underlying().(*types.Interface)
	if toIface && !fromIface {
		return ex.toInterface(v, t, st)
	}
	// same shape (named vs unnamed)
	tl := leavesOf(t)
	if len(tl) == len(v.L) {
		out := Value{T: t, L: map[string]*Term{}, Loc: v.Loc, Fn: v.Fn}
		ok := true
		for _, l := range tl {
			x, has := v.L[l.Path]
			if !has {
				ok = false
				break
			}
			if !sameSort(x.Sort, l.Sort) {
				if x.Sort.K != SArray && l.Sort.K != SArray && x.Sort.K != SUn && l.Sort.K != SUn && x.Sort.K != SBool && l.Sort.K != SBool {
					x = mkConv(x, l.Sort)
				} else {
					ok = false
					break
				}
			}
			out.L[l.Path] = x
		}
		if ok {
			return out
		}
	}
	unsupp("conversion from %s to %s", v.T, t)
	return v
}

func (ex *Exec) toInterface(v Value, t types.Type, st *State) Value {
	var id *Term
	if _, ok := v.T.Underlying().(*types.Pointer); ok && v.Loc == nil {
		// pointers keep their identity; a nil pointer in an interface is a non-nil interface: encode as ref + type tag offset
		id = mkApp("box!"+typeKey(v.T), sortRef, v.scalar())
		st.assume(mkCmp("lt", mkInt(sortRef, 0), id))
		st.assume(mkEq(mkApp("unbox!"+typeKey(v.T), sortRef, id), v.scalar()))
	} else {
		id = freshVar("iface", sortRef)
		st.assume(mkCmp("lt", mkInt(sortRef, 0), id))
		// a boxed non-pointer value is immutable: its leaves are functions of the interface value's identity, so that a
		// type assertion back to the same type yields the value that was boxed
		if v.T != nil && len(v.L) > 0 && len(v.L) <= 32 {
			for _, p := range sortedKeys(v.L) {
				l := v.L[p]
				st.assume(mkEq(mkApp("unboxleaf!"+typeKey(v.T)+"!"+p, l.Sort, id), l))
			}
		}
	}
	st.assume(mkEq(mkApp("dyntype", sortMath, id), mkInt(sortMath, ex.vc.typeID(v.T))))
	out := scalarV(t, id)
	out.Ty = v.T
	return out
}

func (ex *Exec) evalTypeAssert(e *ast.TypeAssertExpr, st *State, commaOk bool) []Value {
	info := ex.info()
	x := ex.eval(e.X, st)
	tt := info.TypeOf(e.Type)
	if _, ok := tt.Underlying().(*types.Interface); ok {
		ex.note("type assertion to an interface type is assumed to succeed for non-nil values")
		ok := mkNot(mkEq(x.scalar(), mkInt(sortRef, 0)))
		if commaOk {
			return []Value{scalarV(tt, mkIte(ok, x.scalar(), mkInt(sortRef, 0))), boolV(ok)}
		}
		ex.check(st, ok, "safety:typeassert", e, "")
		return []Value{scalarV(tt, x.scalar())}
	}
	isT := mkAnd(mkNot(mkEq(x.scalar(), mkInt(sortRef, 0))), mkEq(mkApp("dyntype", sortMath, x.scalar()), mkInt(sortMath, ex.vc.typeID(tt))))
	var out Value
	if _, ok := tt.Underlying().(*types.Pointer); ok {
		out = scalarV(tt, mkApp("unbox!"+typeKey(tt), sortRef, x.scalar()))
		st.assumeValid(out)
	} else {
		out = freshValue("unboxed", tt)
		if len(out.L) > 0 && len(out.L) <= 32 {
			for _, p := range sortedKeys(out.L) {
				l := out.L[p]
				_ = l
				out.L[p] = mkApp("unboxleaf!"+typeKey(tt)+"!"+p, l.Sort, x.scalar())
			}
		}
		st.assumeValid(out)
	}
	if commaOk {
		z := zeroValue(tt)
		r := Value{T: tt, L: map[string]*Term{}}
		for _, p := range sortedKeys(out.L) {
			r.L[p] = mkIte(isT, out.L[p], z.L[p])
		}
		return []Value{r, boolV(isT)}
	}
	ex.check(st, isT, "safety:typeassert", e, "")
	return []Value{out}
}

func (ex *Exec) evalComposite(e *ast.CompositeLit, st *State) Value {
	info := ex.info()
	t := info.TypeOf(e)
	switch u := t.Underlying().(type) {
	case *types.Struct:
		v := zeroValue(t)
		for i, el := range e.Elts {
			var f *types.Var
			var ve ast.Expr
			if kv, ok := el.(*ast.KeyValueExpr); ok {
				name := kv.Key.(*ast.Ident).Name
				for j := 0; j < u.NumFields(); j++ {
					if u.Field(j).Name() == name {
						f = u.Field(j)
					}
				}
				ve = kv.Value
			} else {
				f = u.Field(i)
				ve = el
			}
			fv := ex.convertTo(ex.evalIn(ve, f.Type(), st), f.Type(), st)
			v = v.withField("."+f.Name(), fv)
		}
		return v
	case *types.Array:
		v := zeroValue(t)
		for i, el := range e.Elts {
			idx := int64(i)
			ve := el
			if kv, ok := el.(*ast.KeyValueExpr); ok {
				tv := info.Types[kv.Key]
				n, _ := constant.Int64Val(tv.Value)
				idx = n
				ve = kv.Value
			}
			ev := ex.convertTo(ex.evalIn(ve, u.Elem(), st), u.Elem(), st)
			v = v.withIndex(mkInt(sortInt, idx), ev)
		}
		return v
	case *types.Slice:
		n := int64(len(e.Elts))
		ref := st.newRef()
		ex.initRegion(st, u.Elem(), ref)
		for i, el := range e.Elts {
			if _, ok := el.(*ast.KeyValueExpr); ok {
				unsupp("keyed slice literal")
			}
			ev := ex.convertTo(ex.evalIn(el, u.Elem(), st), u.Elem(), st)
			st.writeElem(u.Elem(), ref, mkInt(sortInt, int64(i)), ev)
		}
		z := mkInt(sortInt, 0)
		return Value{T: t, L: map[string]*Term{".ref": ref, ".off": z, ".len": mkInt(sortInt, n), ".cap": mkInt(sortInt, n)}}
	case *types.Map:
		if len(e.Elts) != 0 {
			unsupp("non-empty map literal")
		}
		return ex.makeMap(t, st)
	}
	unsupp("composite literal of %s", t)
	return Value{}
}

// evalIn evaluates an element expression; composite literals may omit their type.
func (ex *Exec) evalIn(e ast.Expr, t types.Type, st *State) Value {
	if cl, ok := e.(*ast.CompositeLit); ok && cl.Type == nil {
		if pt, ok := t.Underlying().(*types.Pointer); ok {
			_ = pt
			v := ex.evalComposite(cl, st)
			ref := st.newRef()
			st.writeObj(v.T, ref, v)
			return scalarV(t, ref)
		}
	}
	return ex.eval(e, st)
}

func (ex *Exec) initRegion(st *State, et types.Type, ref *Term) {
	z := zeroValue(et)
	for _, l := range leavesOf(et) {
		st.setRegionArr(et, l, ref, mkConstArr(arraySort(sortInt, l.Sort), z.L[l.Path]))
	}
}

func (ex *Exec) makeMap(t types.Type, st *State) Value {
	m, ks := mapParts(t)
	_ = m
	ref := st.newRef()
	dk := mapKey(t, "dom")
	dh := st.heapGet(dk, arraySort(sortRef, arraySort(ks, sortBool)))
	st.heap[dk] = mkStore(dh, ref, mkConstArr(arraySort(ks, sortBool), tFalse))
	lk := mapKey(t, "len")
	lh := st.heapGet(lk, arraySort(sortRef, sortInt))
	st.heap[lk] = mkStore(lh, ref, mkInt(sortInt, 0))
	return scalarV(t, ref)
}

// explicit conversion T(x)
func (ex *Exec) evalConversion(call *ast.CallExpr, st *State) Value {
	info := ex.info()
	t := info.TypeOf(call.Fun)
	arg := call.Args[0]
	if tv, ok := info.Types[call]; ok && tv.Value != nil {
		if v, ok := ex.constValue(tv, t); ok {
			return v
		}
	}
	x := ex.eval(arg, st)
	return ex.convertExplicit(x, t, st, call)
}

func (ex *Exec) convertExplicit(x Value, t types.Type, st *State, n ast.Node) Value {
	if types.Identical(x.T, t) {
		return x
	}
	tu := t.Underlying()
	xu := x.T.Underlying()
	if mathintType != nil && types.Identical(t, mathintType) {
		s := x.scalar()
		if s.Sort.K == SFP {
			unsupp("mathint(float)")
		}
		return scalarV(t, mkConv(s, sortMath))
	}
	switch tb := tu.(type) {
	case *types.Basic:
		if xb, ok := xu.(*types.Basic); ok {
			ts := basicSort(tb)
			xs := x.scalar()
			switch {
			case tb.Info()&types.IsString != 0 && xb.Info()&types.IsString != 0:
				return scalarV(t, xs)
			case tb.Info()&types.IsString != 0 && xb.Info()&types.IsInteger != 0:
				unsupp("string(int)")
			case ts.K == SGoInt && xs.Sort.K == SFP:
				// float -> int: out-of-range conversions are implementation-defined in Go: safety obligation
				lo := new(big.Float).SetInt(ts.lo())
				hi := new(big.Float).SetInt(new(big.Int).Add(ts.hi(), big.NewInt(1)))
				lof, _ := lo.Float64()
				hif, _ := hi.Float64()
				// valid iff lo-1 < x < hi+1 i.e. trunc(x) in range; use lo <= x < hi (conservative by < 1)
				ex.check(st, mkAnd(mkCmp("le", mkFP(lof), xs), mkCmp("lt", xs, mkFP(hif))), "safety:float2int", n, "")
				return scalarV(t, mkConv(xs, ts))
			default:
				return scalarV(t, mkConv(xs, ts))
			}
		}
		if xs, ok := xu.(*types.Slice); ok && tb.Info()&types.IsString != 0 {
			// string(bytes): opaque string with the same length
			_ = xs
			r := freshVar("str", sortStr)
			st.assume(mkEq(mkApp("strlen", sortInt, r), x.L[".len"]))
			return scalarV(t, r)
		}
		if tb.Kind() == types.UnsafePointer {
			out := scalarV(t, x.L[""])
			out.Loc = x.Loc
			out.Ty = x.T
			return out
		}
	case *types.Slice:
		if xb, ok := xu.(*types.Basic); ok && xb.Info()&types.IsString != 0 {
			ref := st.newRef()
			n := mkApp("strlen", sortInt, x.scalar())
			st.assume(mkCmp("le", mkInt(sortInt, 0), n))
			z := mkInt(sortInt, 0)
			return Value{T: t, L: map[string]*Term{".ref": ref, ".off": z, ".len": n, ".cap": n}}
		}
	case *types.Pointer:
		if xb, ok := xu.(*types.Basic); ok && xb.Kind() == types.UnsafePointer {
			return ex.reinterpretPtr(x, t, st, n)
		}
	}
	return ex.convertTo(x, t, st)
}

// evalCall dispatch.
func (ex *Exec) evalCall(call *ast.CallExpr, st *State) []Value {
	info := ex.info()
	if tv, ok := info.Types[call.Fun]; ok && tv.IsType() {
		return []Value{ex.evalConversion(call, st)}
	}
	fun := ast.Unparen(call.Fun)
	// builtins and specification helpers
	if id, ok := fun.(*ast.Ident); ok {
		switch o := info.Uses[id].(type) {
		case *types.Builtin:
			return ex.evalBuiltin(o.Name(), call, st)
		case *types.Func:
			if o.Pkg() == nil {
				return ex.evalSpecFunc(o.Name(), call, st)
			}
		}
	}
	if ix, ok := fun.(*ast.IndexExpr); ok {
		// explicit instantiation of a generic function
		if id, ok := ast.Unparen(ix.X).(*ast.Ident); ok {
			if o, ok := info.Uses[id].(*types.Func); ok && o.Pkg() == nil {
				return ex.evalSpecFunc(o.Name(), call, st)
			}
		}
	}
	ex.checkCallSite(call, st)
	var fn *types.Func
	var recv *Value
	var recvExpr ast.Expr
	switch f := fun.(type) {
	case *ast.Ident:
		fn, _ = info.Uses[f].(*types.Func)
	case *ast.SelectorExpr:
		if sel, ok := info.Selections[f]; ok {
			if sel.Kind() == types.MethodVal {
				fn = sel.Obj().(*types.Func)
				recvExpr = f.X
				r := ex.evalRecv(f, sel, st)
				recv = &r
			}
		} else {
			fn, _ = info.Uses[f.Sel].(*types.Func)
		}
	case *ast.FuncLit:
		args := ex.evalArgs(call, info.TypeOf(f).(*types.Signature), st)
		return ex.callLit(&FuncVal{Lit: f, Info: info, Pkg: ex.frame().pkg}, args, st, call)
	}
	if fn == nil {
		// call through a function value
		fv := ex.eval(call.Fun, st)
		sig := fv.T.Underlying().(*types.Signature)
		args := ex.evalArgs(call, sig, st)
		if fv.Fn == nil {
			if id, ok := fun.(*ast.Ident); ok {
				if r, ok := ex.callCallback(id, sig, args, st, call); ok {
					return r
				}
			}
		}
		if fv.Fn != nil {
			if fv.Fn.Lit != nil {
				return ex.callLit(fv.Fn, args, st, call)
			}
			if fv.Fn.Fn != nil {
				return ex.callFunc(fv.Fn.Fn, fv.Fn.Recv, args, st, call)
			}
		}
		return ex.callUnknown(call, sig, nil, args, st, "function value "+ex.src(call.Fun))
	}
	sig := fn.Type().(*types.Signature)
	if isig, ok := info.TypeOf(call.Fun).(*types.Signature); ok && sig.TypeParams().Len() > 0 {
		sig = isig
	}
	_ = recvExpr
	if len(countedCalls) > 0 && ex.spec == 0 {
		if cn := counterNameOf(fn); countedCalls[cn] {
			if _, isIface := recvIface(recv); !isIface {
				defer ex.bumpCalls(st, cn)
			}
		}
	}
	if recv == nil && fn.Pkg() != nil {
		for _, xd := range externDirs[ex.frame().pkg.Path()] {
			if xd.Callee == fn.FullName() {
				return ex.callExtern(xd, fn, sig, call, st)
			}
		}
	}
	if m := lookupModel(fn); m != nil {
		args := ex.evalArgs(call, sig, st)
		return m.call(ex, st, call, recv, args)
	}
	args := ex.evalArgs(call, sig, st)
	if fi := ex.vc.funcs[funcKey(fn)]; fi != nil && fi.Decl.Body != nil {
		return ex.applyNoError(call, sig, ex.callFunc(fi, recv, args, st, call), st)
	}
	if recv != nil {
		if _, ok := recv.T.Underlying().(*types.Interface); ok {
			if r, ok := ex.callInterface(fn, recv, args, st, call); ok {
				return r
			}
		}
	}
	return ex.applyNoError(call, sig, ex.callUnknown(call, sig, recv, args, st, fn.FullName()), st)
}

// applyNoError: //@ noerror clauses of the function under verification (third-party calls assumed not to fail).
func (ex *Exec) applyNoError(call *ast.CallExpr, sig *types.Signature, res []Value, st *State) []Value {
	if f0 := ex.frames[0]; len(ex.frames) == 1 && f0.fn != nil && f0.fn.Con != nil && (len(f0.fn.Con.NoError) > 0 || len(f0.fn.Con.NonNil) > 0) && len(res) > 0 && !st.dead {
		text := strings.ReplaceAll(nodeText(ex.vc.fset, call.Fun), " ", "")
		for _, nn := range f0.fn.Con.NonNil {
			if nn == text && res[0].T != nil {
				_, isPtr := res[0].T.Underlying().(*types.Pointer)
				_, isIface := res[0].T.Underlying().(*types.Interface)
				if isPtr || isIface {
					ex.note("ASSUMED: " + text + " returns a non-nil value in " + f0.fn.Short + " (nonnil clause)")
					st.assume(mkNot(mkEq(res[0].scalar(), mkInt(sortRef, 0))))
				}
			}
		}
		for _, ne := range f0.fn.Con.NoError {
			if ne == text && isErrorType(sig.Results().At(sig.Results().Len()-1).Type()) {
				ex.note("ASSUMED: " + text + " returns a nil error in " + f0.fn.Short + " (noerror clause)")
				st.assume(mkEq(res[len(res)-1].scalar(), mkInt(sortRef, 0)))
			}
		}
	}
	return res
}

// evalRecv computes the receiver value for a method call x.m(), inserting & or * as needed.
func (ex *Exec) evalRecv(f *ast.SelectorExpr, sel *types.Selection, st *State) Value {
	info := ex.info()
	fn := sel.Obj().(*types.Func)
	sig := fn.Type().(*types.Signature)
	rt := sig.Recv().Type()
	bt := info.TypeOf(f.X)
	// embedded promotion: walk all but the last index
	idx := sel.Index()
	_, wantPtr := rt.Underlying().(*types.Pointer)
	if _, isIface := bt.Underlying().(*types.Interface); isIface {
		return ex.eval(f.X, st)
	}
	if len(idx) > 1 {
		// promoted method through embedded fields
		var cur *LValue
		if pt, ok := bt.Underlying().(*types.Pointer); ok {
			p := ex.eval(f.X, st)
			if p.Loc != nil {
				cur = p.Loc
			} else {
				ex.check(st, mkNot(mkEq(p.scalar(), mkInt(sortRef, 0))), "safety:nil", f, "")
				cur = &LValue{kind: lvObj, rootT: pt.Elem(), ref: p.scalar()}
			}
		} else if ex.addressable(f.X) {
			cur = ex.lvalue(f.X, st)
		} else {
			base := ex.eval(f.X, st)
			tmp := types.NewVar(f.Pos(), nil, "tmp!", base.T)
			st.env[tmp] = base
			cur = &LValue{kind: lvVar, obj: tmp, rootT: base.T}
		}
		for _, i := range idx[:len(idx)-1] {
			t := cur.typ()
			if pt, ok := t.Underlying().(*types.Pointer); ok {
				p := st.readLV(cur)
				cur = &LValue{kind: lvObj, rootT: pt.Elem(), ref: p.scalar()}
				t = pt.Elem()
			}
			fld := t.Underlying().(*types.Struct).Field(i)
			cur = cur.extend(step{field: "." + fld.Name(), t: fld.Type()})
		}
		ft := cur.typ()
		_, isPtr := ft.Underlying().(*types.Pointer)
		switch {
		case wantPtr && isPtr, !wantPtr && !isPtr:
			if _, ok := ft.Underlying().(*types.Interface); ok {
				return st.readLV(cur)
			}
			return st.readLV(cur)
		case wantPtr && !isPtr:
			return Value{T: rt, L: map[string]*Term{"": freshVar("locptr", sortRef)}, Loc: cur}
		default:
			p := st.readLV(cur)
			return ex.deref(p, ft.Underlying().(*types.Pointer).Elem(), st, f)
		}
	}
	_, havePtr := bt.Underlying().(*types.Pointer)
	switch {
	case wantPtr == havePtr:
		return ex.eval(f.X, st)
	case wantPtr && !havePtr:
		lv := ex.lvalue(f.X, st)
		if lv.kind == lvObj && len(lv.steps) == 0 {
			return scalarV(rt, lv.ref)
		}
		return Value{T: rt, L: map[string]*Term{"": freshVar("locptr", sortRef)}, Loc: lv}
	default:
		p := ex.eval(f.X, st)
		return ex.deref(p, bt.Underlying().(*types.Pointer).Elem(), st, f)
	}
}

func (ex *Exec) evalArgs(call *ast.CallExpr, sig *types.Signature, st *State) []Value {
	var args []Value
	if len(call.Args) == 1 && sig.Params().Len() > 1 {
		// f(g()) with multi-value g
		args = ex.evalMulti(call.Args[0], st)
	} else {
		for _, a := range call.Args {
			args = append(args, ex.eval(a, st))
		}
	}
	np := sig.Params().Len()
	if sig.Variadic() && !call.Ellipsis.IsValid() {
		// pack the trailing arguments; modelled as an opaque slice holder (elements kept in Go-side list)
		fixed := args
		var rest []Value
		if len(args) >= np-1 {
			fixed = args[:np-1]
			rest = args[np-1:]
		}
		out := append([]Value{}, fixed...)
		vt := sig.Params().At(np - 1).Type()
		et := vt.(*types.Slice).Elem()
		ref := st.newRef()
		ex.initRegion(st, et, ref)
		for i, r := range rest {
			st.writeElem(et, ref, mkInt(sortInt, int64(i)), ex.convertTo(r, et, st))
		}
		n := mkInt(sortInt, int64(len(rest)))
		out = append(out, Value{T: vt, L: map[string]*Term{".ref": ref, ".off": mkInt(sortInt, 0), ".len": n, ".cap": n}})
		args = out
	}
	for i := range args {
		if i < np {
			args[i] = ex.convertTo(args[i], sig.Params().At(i).Type(), st)
		}
	}
	return args
}

// callExtern: a call of an external function for which the package declares a stub contract (//@ extern).
func (ex *Exec) callExtern(xd *ExternDir, fn *types.Func, sig *types.Signature, call *ast.CallExpr, st *State) []Value {
	p := ex.frame().pkg
	fi := ex.vc.byShort[p.Name()+"."+xd.Stub]
	if fi == nil || fi.Con == nil || !fi.Con.Trusted {
		unsupp("extern %s: stub %s needs a trusted contract", xd.Callee, xd.Stub)
	}
	if len(call.Args) < len(xd.Lead) {
		unsupp("extern %s: too few arguments", xd.Callee)
	}
	for i, l := range xd.Lead {
		if ex.src(call.Args[i]) != l {
			unsupp("extern %s at %s: argument %d is %s, the stub contract is specialised to %s", xd.Callee, ex.pos(call), i, ex.src(call.Args[i]), l)
		}
	}
	ssig := fi.Obj.Type().(*types.Signature)
	rest := call.Args[len(xd.Lead):]
	if ssig.Params().Len() != len(rest) {
		unsupp("extern %s: stub %s takes %d parameters, call has %d remaining arguments", xd.Callee, xd.Stub, ssig.Params().Len(), len(rest))
	}
	var args []Value
	for i, a := range rest {
		if lit, ok := ast.Unparen(a).(*ast.FuncLit); ok {
			// a function literal handed to the summarised function may be called any number of times: everything it writes
			// becomes arbitrary
			w := ex.scanWrites(lit.Body, ex.info())
			ex.havocWrites(w, st, false)
		}
		args = append(args, ex.convertTo(ex.eval(a, st), ssig.Params().At(i).Type(), st))
	}
	ex.note("external function summarised by an assumed stub contract: " + xd.Callee + " as " + fi.Short)
	res := ex.callModular(fi, nil, args, st, call)
	for i := range res {
		if i < sig.Results().Len() {
			res[i] = ex.convertTo(res[i], sig.Results().At(i).Type(), st)
		}
	}
	return res
}

func qfPart(g *Term) *Term {
	if _, _, _, q := featureScan([]*Term{g}); !q {
		return g
	}
	if g.Op == "and" {
		var keep []*Term
		for _, a := range g.Args {
			keep = append(keep, qfPart(a))
		}
		return mkAnd(keep...)
	}
	return tTrue
}

// counterNameOf: "UDPConn.WriteToUDPAddrPort" for methods (receiver type name without package and pointer),
// "pkg.Func" for functions.
func counterNameOf(fn *types.Func) string {
	sig := fn.Type().(*types.Signature)
	if r := sig.Recv(); r != nil {
		t := r.Type()
		if p, ok := t.(*types.Pointer); ok {
			t = p.Elem()
		}
		if n, ok := t.(*types.Named); ok {
			return n.Obj().Name() + "." + fn.Name()
		}
		return fn.Name()
	}
	if fn.Pkg() != nil {
		return fn.Pkg().Name() + "." + fn.Name()
	}
	return fn.Name()
}

func recvIface(recv *Value) (*types.Interface, bool) {
	if recv == nil || recv.T == nil {
		return nil, false
	}
	i, ok := recv.T.Underlying().(*types.Interface)
	return i, ok
}
