package main

// tryReplay: model -> in-package Go test against the real code (filled in below).
func tryReplay(vc *VC, o *Obligation, rep map[string]any) bool {
	return false
}
