package main

// Replay of a refuted obligation against the real code: the solver's model supplies the inputs,
// an in-package test (injected with `go test -overlay`, nothing is written into /repo) runs the real
// function, and the observed outputs are compared with the outputs the model predicts. Because the
// violated clause is false on the predicted outputs, agreement confirms the violation on the real code.

import (
	"bytes"
	"context"
	"encoding/json"
	"fmt"
	"go/types"
	"math/big"
	"os"
	"os/exec"
	"path/filepath"
	"regexp"
	"sort"
	"strconv"
	"strings"
	"time"
)

type ioLeaf struct {
	Name string // e.g. "t.sec", "result0.nsec", "*pkt.LVM"
	T    *Term
}

type ReplayInfo struct {
	Fn      *FuncInfo
	Lemma   *Lemma
	Params  []replayParam
	Outputs []ioLeaf
	Results []Value
	Panics  bool // safety obligation: expected behaviour is a panic
	Hang    bool
}

type replayParam struct {
	Name string
	T    types.Type
	V    Value
	Heap *State // entry state (for pointees and slice contents)
	Recv bool
}

const replaySliceMax = 4096

var replayTimeout = "20s"

// modelValue parses an SMT-LIB value into a Go literal string for the given sort.
func parseModelInt(s string) (*big.Int, bool) {
	s = strings.TrimSpace(s)
	neg := false
	if strings.HasPrefix(s, "(-") {
		neg = true
		s = strings.TrimSpace(strings.TrimSuffix(strings.TrimPrefix(s, "(-"), ")"))
	}
	if strings.HasPrefix(s, "#x") {
		v, ok := new(big.Int).SetString(s[2:], 16)
		return v, ok
	}
	if strings.HasPrefix(s, "#b") {
		v, ok := new(big.Int).SetString(s[2:], 2)
		return v, ok
	}
	if strings.HasPrefix(s, "(_ bv") {
		f := strings.Fields(strings.Trim(s, "()"))
		v, ok := new(big.Int).SetString(strings.TrimPrefix(f[1], "bv"), 10)
		return v, ok
	}
	v, ok := new(big.Int).SetString(s, 10)
	if ok && neg {
		v.Neg(v)
	}
	return v, ok
}

var reFP = regexp.MustCompile(`\(fp\s+#b([01])\s+#b([01]{11})\s+#[bx]([0-9a-fA-F]+)\)`)

func parseModelFP(s string) (uint64, bool) {
	s = strings.TrimSpace(s)
	if m := reFP.FindStringSubmatch(s); m != nil {
		sign, _ := strconv.ParseUint(m[1], 2, 64)
		exp, _ := strconv.ParseUint(m[2], 2, 64)
		var man uint64
		if len(m[3]) == 52 {
			man, _ = strconv.ParseUint(m[3], 2, 64)
		} else {
			man, _ = strconv.ParseUint(m[3], 16, 64)
		}
		return sign<<63 | exp<<52 | man, true
	}
	switch {
	case strings.Contains(s, "+zero"):
		return 0, true
	case strings.Contains(s, "-zero"):
		return 1 << 63, true
	case strings.Contains(s, "+oo"):
		return 0x7ff0000000000000, true
	case strings.Contains(s, "-oo"):
		return 0xfff0000000000000, true
	case strings.Contains(s, "NaN"):
		return 0x7ff8000000000001, true
	}
	return 0, false
}

type modelEval struct {
	facts []*Term
	goal  *Term
	cache map[string]string
}

// values asks the solver for concrete values of the given terms in a model of facts /\ not goal.
func (m *modelEval) values(ts []*Term, pin []*Term) ([]string, bool) {
	facts := append(append([]*Term{}, m.facts...), pin...)
	for _, mode := range []Mode{ModeInt, ModeBV} {
		script, err := buildScript(mode, facts, m.goal, ts, false)
		if err != nil {
			continue
		}
		for _, sp := range solvers[:2] {
			r := runOne(contextBackground(), sp, mode, script, 10*time.Second)
			if r.Status == "sat" && len(r.Values) == len(ts) {
				return r.Values, true
			}
			if r.Status == "unsat" {
				return nil, false
			}
		}
	}
	return nil, false
}

func (vc *VC) qualifierPkgName(imports map[string]bool, self *types.Package) types.Qualifier {
	return func(p *types.Package) string {
		if p == self {
			return ""
		}
		imports[p.Path()] = true
		return p.Name()
	}
}

// goLiteral renders a Go expression constructing the value v (of type t) from model leaf values.
type litBuilder struct {
	vc      *VC
	self    *types.Package
	imports map[string]bool
	get     func(t *Term) (string, bool) // model value of a scalar term
	entry   *State
	pre     []string // statements to emit before use
	n       int
	ok      bool
	why     string
	objs    map[string]string // (type|ref) -> variable name
}

func (b *litBuilder) fail(why string) string {
	if b.ok {
		b.ok = false
		b.why = why
	}
	return "nil"
}

func (b *litBuilder) typeStr(t types.Type) string {
	return types.TypeString(t, b.vc.qualifierPkgName(b.imports, b.self))
}

func (b *litBuilder) scalar(t types.Type, x *Term) string {
	val, ok := b.get(x)
	if !ok {
		return b.fail("no model value for " + x.short())
	}
	switch x.Sort.K {
	case SBool:
		return strings.TrimSpace(val)
	case SGoInt, SMath:
		v, ok := parseModelInt(val)
		if !ok {
			return b.fail("cannot parse " + val)
		}
		if x.Sort.K == SGoInt {
			v = wrapBig(v, x.Sort)
		}
		return fmt.Sprintf("%s(%s)", b.typeStr(t), v.String())
	case SFP:
		bits, ok := parseModelFP(val)
		if !ok {
			return b.fail("cannot parse float " + val)
		}
		b.imports["math"] = true
		return fmt.Sprintf("%s(math.Float64frombits(%#x))", b.typeStr(t), bits)
	}
	return b.fail("unsupported scalar sort " + x.Sort.String())
}

func (b *litBuilder) intVal(x *Term) (int64, bool) {
	val, ok := b.get(x)
	if !ok {
		return 0, false
	}
	v, ok := parseModelInt(val)
	if !ok {
		return 0, false
	}
	if x.Sort.K == SGoInt {
		v = wrapBig(v, x.Sort)
	}
	if !v.IsInt64() {
		return 0, false
	}
	return v.Int64(), true
}

func (b *litBuilder) lit(v Value) string {
	t := v.T
	if isTime(t) {
		b.imports["time"] = true
		s, ok1 := b.intVal(v.L[".sec"])
		n, ok2 := b.intVal(v.L[".nsec"])
		if !ok1 || !ok2 {
			return b.fail("time value")
		}
		return fmt.Sprintf("time.Unix(%d, %d).UTC()", s, n)
	}
	switch u := t.Underlying().(type) {
	case *types.Basic:
		if u.Kind() == types.String {
			return b.fail("string input")
		}
		if u.Kind() == types.UnsafePointer {
			return b.fail("unsafe pointer input")
		}
		return b.scalar(t, v.scalar())
	case *types.Struct:
		var fs []string
		for i := 0; i < u.NumFields(); i++ {
			f := u.Field(i)
			if !f.Exported() && f.Pkg() != b.self {
				return b.fail("unexported field of foreign struct " + t.String())
			}
			fs = append(fs, f.Name()+": "+b.lit(v.field("."+f.Name(), f.Type())))
		}
		return b.typeStr(t) + "{" + strings.Join(fs, ", ") + "}"
	case *types.Array:
		if u.Len() > 256 {
			return b.fail("large array")
		}
		var es []string
		for i := int64(0); i < u.Len(); i++ {
			es = append(es, b.lit(v.index(u.Elem(), mkInt(sortInt, i))))
		}
		return b.typeStr(t) + "{" + strings.Join(es, ", ") + "}"
	case *types.Pointer:
		if v.Loc != nil {
			return b.fail("static pointer input")
		}
		ref, ok := b.intVal(v.scalar())
		if !ok {
			return b.fail("pointer value")
		}
		if ref == 0 {
			return "nil"
		}
		key := typeKey(u.Elem()) + "|" + fmt.Sprint(ref)
		if name, ok := b.objs[key]; ok {
			return "&" + name
		}
		b.n++
		name := fmt.Sprintf("obj%d", b.n)
		b.objs[key] = name
		pointee := b.entry.readObj(u.Elem(), v.scalar())
		b.pre = append(b.pre, fmt.Sprintf("%s := %s", name, b.lit(pointee)))
		return "&" + name
	case *types.Slice:
		ref, ok0 := b.intVal(v.L[".ref"])
		ln, ok1 := b.intVal(v.L[".len"])
		cp, ok2 := b.intVal(v.L[".cap"])
		if !ok0 || !ok1 || !ok2 {
			return b.fail("slice header")
		}
		if ref == 0 {
			return b.typeStr(t) + "(nil)"
		}
		if cp > replaySliceMax || ln > cp || ln < 0 {
			return b.fail(fmt.Sprintf("slice too large for replay (len %d cap %d)", ln, cp))
		}
		b.n++
		name := fmt.Sprintf("sl%d", b.n)
		b.pre = append(b.pre, fmt.Sprintf("%s := make(%s, %d, %d)", name, b.typeStr(t), ln, cp))
		for i := int64(0); i < ln; i++ {
			ev := b.entry.readElem(u.Elem(), v.L[".ref"], idxAdd(v.L[".off"], mkInt(sortInt, i)))
			b.pre = append(b.pre, fmt.Sprintf("%s[%d] = %s", name, i, b.lit(ev)))
		}
		return name
	case *types.Interface:
		ref, ok := b.intVal(v.scalar())
		if ok && ref == 0 {
			return "nil"
		}
		return b.fail("non-nil interface input")
	}
	return b.fail("unsupported input type " + t.String())
}

// outLeaves: printable leaves of a result value: returns (go expression, term) pairs
func outExprs(prefix string, t types.Type, v Value) ([]string, []*Term, bool) {
	if isTime(t) {
		return []string{prefix + ".Unix()", "int64(" + prefix + ".Nanosecond())"}, []*Term{v.L[".sec"], v.L[".nsec"]}, true
	}
	switch u := t.Underlying().(type) {
	case *types.Basic:
		if u.Kind() == types.String || u.Kind() == types.UnsafePointer {
			return nil, nil, true // not compared
		}
		x := v.scalar()
		switch x.Sort.K {
		case SFP:
			return []string{"math.Float64bits(float64(" + prefix + "))"}, []*Term{x}, true
		case SBool:
			return []string{prefix}, []*Term{x}, true
		default:
			if x.Sort.Signed {
				return []string{"int64(" + prefix + ")"}, []*Term{x}, true
			}
			return []string{"uint64(" + prefix + ")"}, []*Term{x}, true
		}
	case *types.Struct:
		var es []string
		var ts []*Term
		for i := 0; i < u.NumFields(); i++ {
			f := u.Field(i)
			e, tt, ok := outExprs(prefix+"."+f.Name(), f.Type(), v.field("."+f.Name(), f.Type()))
			if !ok {
				return nil, nil, false
			}
			es = append(es, e...)
			ts = append(ts, tt...)
		}
		return es, ts, true
	case *types.Array:
		if u.Len() > 64 {
			return nil, nil, true
		}
		var es []string
		var ts []*Term
		for i := int64(0); i < u.Len(); i++ {
			e, tt, ok := outExprs(fmt.Sprintf("%s[%d]", prefix, i), u.Elem(), v.index(u.Elem(), mkInt(sortInt, i)))
			if !ok {
				return nil, nil, false
			}
			es = append(es, e...)
			ts = append(ts, tt...)
		}
		return es, ts, true
	case *types.Interface:
		// only nil-ness is compared
		return []string{"(" + prefix + " == nil)"}, []*Term{mkEq(v.scalar(), mkInt(sortRef, 0))}, true
	case *types.Slice:
		return []string{"int64(len(" + prefix + "))"}, []*Term{v.L[".len"]}, true
	case *types.Pointer, *types.Map, *types.Chan, *types.Signature:
		return nil, nil, true
	}
	return nil, nil, false
}

const replaySep = "\n--- output ---\n"

func replayOutput(s string) string {
	if i := strings.Index(s, replaySep); i >= 0 {
		return s[i+len(replaySep):]
	}
	return s
}

func runReplayTest(pkgDir, pkgName, body string, imports map[string]bool, withTag bool) (string, error) {
	dir, err := os.MkdirTemp("", "govc-replay-*")
	if err != nil {
		return "", err
	}
	defer os.RemoveAll(dir)
	var imps []string
	imports["testing"] = true
	imports["fmt"] = true
	for p := range imports {
		imps = append(imps, strconv.Quote(p))
	}
	sort.Strings(imps)
	src := "package " + pkgName + "\n\nimport (\n\t" + strings.Join(imps, "\n\t") + "\n)\n\n" + body
	tf := filepath.Join(dir, "replay_test.go")
	os.WriteFile(tf, []byte(src), 0o644)
	ov := map[string]any{"Replace": map[string]string{filepath.Join(pkgDir, "zz_govc_replay_test.go"): tf}}
	ob, _ := json.Marshal(ov)
	of := filepath.Join(dir, "ov.json")
	os.WriteFile(of, ob, 0o644)
	args := []string{"test", "-overlay", of, "-vet=off", "-count=1", "-timeout", replayTimeout, "-run", "^TestGovcReplay$", "-v"}
	if withTag {
		args = append(args, "-tags", "verif")
	}
	args = append(args, ".")
	cmd := exec.Command("go", args...)
	cmd.Dir = pkgDir
	env := []string{}
	for _, e := range os.Environ() {
		if strings.HasPrefix(e, "GOFLAGS=") || strings.HasPrefix(e, "GOPROXY=") {
			continue
		}
		env = append(env, e)
	}
	cmd.Env = append(env, "GOFLAGS=-mod=mod", "GOPROXY=off")
	var out bytes.Buffer
	cmd.Stdout = &out
	cmd.Stderr = &out
	done := make(chan error, 1)
	go func() { done <- cmd.Run() }()
	select {
	case <-done:
	case <-time.After(150 * time.Second):
		cmd.Process.Kill()
		return src + "\n--- output ---\n" + out.String() + "\n(killed after 150 s)", fmt.Errorf("timeout")
	}
	return src + "\n--- output ---\n" + out.String(), nil
}

// tryReplay: returns true iff the real code reproduces the violation.
func tryReplay(vc *VC, o *Obligation, rep map[string]any) (confirmed bool) {
	defer func() {
		if r := recover(); r != nil {
			rep["replay_error"] = fmt.Sprint(r)
			confirmed = false
		}
	}()
	ri := o.Replay
	if ri == nil {
		rep["replay"] = "no replay information for this kind of obligation"
		return false
	}
	// candidate inputs come from a model of the quantifier-free facts (the replay on the real code is the judge)
	var facts []*Term
	for _, f := range append(strConstFacts(), o.Facts...) {
		if _, _, _, q := featureScan([]*Term{f}); !q {
			facts = append(facts, f)
		}
	}
	goal := o.Goal
	if _, _, _, q := featureScan([]*Term{goal}); q {
		goal = tFalse
	}
	me := &modelEval{facts: facts, goal: goal}
	// Model values are fetched in batched rounds: a dry run of the input builder records which terms it needs,
	// one solver call fetches them all (pinning earlier answers so that all rounds talk about one model).
	known := map[*Term]string{}
	var pins []*Term
	var missing []*Term
	missingSet := map[*Term]bool{}
	// prefer small inputs: slices of at most 256 elements if such a model exists
	var small []*Term
	for _, p := range ri.Params {
		for _, path := range sortedKeys(p.V.L) {
			t := p.V.L[path]
			_ = t
			if strings.HasSuffix(path, ".len") || strings.HasSuffix(path, ".cap") {
				small = append(small, mkCmp("le", t, mkInt(t.Sort, 256)))
			}
		}
	}
	if len(small) > 0 {
		if _, ok := me.values([]*Term{tTrue}, small); ok {
			pins = append(pins, small...)
		}
	}
	get := func(t *Term) (string, bool) {
		if t.isConst() {
			switch t.Sort.K {
			case SBool:
				return fmt.Sprint(t.B), true
			case SFP:
				return fpLit(t.F), true
			default:
				return intLit(t.Val), true
			}
		}
		if v, ok := known[t]; ok {
			return v, true
		}
		if !missingSet[t] {
			missingSet[t] = true
			missing = append(missing, t)
		}
		// placeholder for the dry run
		switch t.Sort.K {
		case SBool:
			return "false", true
		case SFP:
			return "(fp #b0 #b00000000000 #b0000000000000000000000000000000000000000000000000000)", true
		}
		return "0", true
	}
	fetch := func() bool {
		if len(missing) == 0 {
			return true
		}
		vals, ok := me.values(missing, pins)
		if !ok {
			return false
		}
		for i, t := range missing {
			known[t] = vals[i]
			if t.Sort.K == SGoInt || t.Sort.K == SMath {
				if bi, ok := parseModelInt(vals[i]); ok {
					if t.Sort.K == SGoInt {
						bi = wrapBig(bi, t.Sort)
					}
					pins = append(pins, mkEq(t, mkIntBig(t.Sort, bi)))
				}
			} else if t.Sort.K == SBool {
				pins = append(pins, mkEq(t, mkBool(strings.TrimSpace(vals[i]) == "true")))
			}
		}
		missing = nil
		missingSet = map[*Term]bool{}
		return true
	}
	imports := map[string]bool{}
	if ri.Lemma != nil {
		return replayLemma(vc, o, ri, rep, get, imports, func() bool {
			if len(missing) == 0 {
				return true
			}
			fetch()
			return false
		})
	}
	hang := strings.HasPrefix(o.Kind, "variant")
	fi := ri.Fn
	var b *litBuilder
	var args []string
	recv := ""
	for round := 0; round < 8; round++ {
		b = &litBuilder{vc: vc, self: fi.Pkg.Types, imports: imports, get: get, ok: true, objs: map[string]string{}}
		args = nil
		recv = ""
		for _, p := range ri.Params {
			b.entry = p.Heap
			l := b.lit(p.V)
			if p.Recv {
				recv = l
			} else {
				args = append(args, l)
			}
		}
		if len(missing) == 0 {
			break
		}
		if !fetch() {
			rep["replay"] = "the solver did not return model values for the inputs"
			return false
		}
	}
	if !b.ok {
		rep["replay"] = "inputs cannot be constructed for replay: " + b.why
		return false
	}
	sig := fi.Obj.Type().(*types.Signature)
	var body strings.Builder
	body.WriteString("func TestGovcReplay(govcT *testing.T) {\n")
	for _, s := range b.pre {
		body.WriteString("\t" + s + "\n")
	}
	body.WriteString("\tdefer func() {\n\t\tif r := recover(); r != nil {\n\t\t\tfmt.Println(\"GOVC-PANIC\", r)\n\t\t}\n\t}()\n")
	var resNames []string
	for i := 0; i < sig.Results().Len(); i++ {
		resNames = append(resNames, fmt.Sprintf("r%d", i))
	}
	callee := fi.Obj.Name()
	if recv != "" {
		body.WriteString("\trecv := " + recv + "\n")
		callee = "recv." + callee
	}
	callS := callee + "(" + strings.Join(args, ", ") + ")"
	if sig.Variadic() && len(args) > 0 {
		callS = callee + "(" + strings.Join(args, ", ") + "...)"
	}
	if len(resNames) > 0 {
		body.WriteString("\t" + strings.Join(resNames, ", ") + " := " + callS + "\n")
	} else {
		body.WriteString("\t" + callS + "\n")
	}
	var outTerms []*Term
	k := 0
	for i := range resNames {
		if i >= len(ri.Results) {
			break
		}
		es, ts, ok := outExprs(resNames[i], sig.Results().At(i).Type(), ri.Results[i])
		if !ok {
			continue
		}
		for j, e := range es {
			if strings.Contains(e, "math.") {
				imports["math"] = true
			}
			fmt.Fprintf(&body, "\tfmt.Println(\"GOVC-OUT\", %d, %s)\n", k, e)
			outTerms = append(outTerms, ts[j])
			k++
		}
	}
	for _, r := range resNames {
		body.WriteString("\t_ = " + r + "\n")
	}
	body.WriteString("\tfmt.Println(\"GOVC-RETURNED\")\n}\n")
	out, err := runReplayTest(filepath.Dir(vc.fset.Position(fi.Decl.Pos()).Filename), fi.Pkg.Types.Name(), body.String(), imports, strings.HasSuffix(vc.fset.Position(fi.Decl.Pos()).Filename, "contracts_verif.go"))
	rep["replay_test"] = out
	out = replayOutput(out)
	if hang {
		if strings.Contains(out, "test timed out") || err != nil {
			rep["replay"] = "real code did not return within the replay timeout on the model's input (hang reproduced)"
			return true
		}
		rep["replay"] = "real code returned on the model's input (non-termination not reproduced)"
		return false
	}
	if err != nil {
		rep["replay"] = "replay run failed: " + err.Error()
		return false
	}
	panicked := strings.Contains(out, "GOVC-PANIC") || strings.Contains(out, "panic:")
	if strings.HasPrefix(o.Kind, "safety") || o.Kind == "panic-declared" || o.Kind == "callee-panics" {
		if panicked {
			rep["replay"] = "real code panics on the model's input"
			return true
		}
		rep["replay"] = "real code did not panic on the model's input (model not reproduced)"
		return false
	}
	if panicked {
		rep["replay"] = "real code panicked while the violated clause is about a normal return"
		return o.Kind == "panics-iff"
	}
	if !strings.Contains(out, "GOVC-RETURNED") {
		rep["replay"] = "replay test did not complete (compile error?)"
		return false
	}
	// compare observed with predicted outputs
	obs := map[int]string{}
	for _, ln := range strings.Split(out, "\n") {
		f := strings.Fields(ln)
		if len(f) == 3 && f[0] == "GOVC-OUT" {
			i, _ := strconv.Atoi(f[1])
			obs[i] = f[2]
		}
	}
	for _, t := range outTerms {
		get(t)
	}
	fetch()
	var diffs []string
	for i, t := range outTerms {
		pv, ok := get(t)
		if !ok {
			diffs = append(diffs, fmt.Sprintf("output %d: no predicted value", i))
			continue
		}
		var want string
		switch t.Sort.K {
		case SBool:
			want = strings.TrimSpace(pv)
		case SFP:
			bits, _ := parseModelFP(pv)
			want = fmt.Sprint(bits)
		default:
			bi, _ := parseModelInt(pv)
			if t.Sort.K == SGoInt {
				bi = wrapBig(bi, t.Sort)
			}
			want = bi.String()
		}
		if obs[i] != want {
			diffs = append(diffs, fmt.Sprintf("output %d: real code %s, model %s", i, obs[i], want))
		}
	}
	if len(diffs) > 0 {
		rep["replay"] = "real code does not behave as the model predicts: " + strings.Join(diffs, "; ")
		return false
	}
	rep["replay"] = fmt.Sprintf("real code returns exactly the %d output values of the counterexample, on which the clause is false", len(outTerms))
	return true
}

// replayLemma: the ensures expressions are Go expressions over the real functions; evaluate them on the model's inputs.
func replayLemma(vc *VC, o *Obligation, ri *ReplayInfo, rep map[string]any, get func(*Term) (string, bool), imports map[string]bool, fetchFn func() bool) bool {
	l := ri.Lemma
	p := vc.pkgs[l.Pkg]
	for _, e := range l.Ensures {
		if strings.Contains(e, "mathint") || strings.Contains(e, "forall") || strings.Contains(e, "==>") || strings.Contains(e, "exists") || strings.Contains(e, "floor") {
			rep["replay"] = "lemma conclusion is not an executable Go expression"
			return false
		}
	}
	var b *litBuilder
	var decls []string
	for round := 0; round < 8; round++ {
		b = &litBuilder{vc: vc, self: p.Types, imports: imports, get: get, ok: true, objs: map[string]string{}}
		decls = nil
		for _, rp := range ri.Params {
			b.entry = rp.Heap
			decls = append(decls, fmt.Sprintf("\t%s := %s\n\t_ = %s\n", rp.Name, b.lit(rp.V), rp.Name))
		}
		if fetchFn == nil || fetchFn() {
			break
		}
	}
	var body strings.Builder
	body.WriteString("func TestGovcReplay(govcT *testing.T) {\n")
	if !b.ok {
		rep["replay"] = "inputs cannot be constructed for replay: " + b.why
		return false
	}
	for _, s := range b.pre {
		body.WriteString("\t" + s + "\n")
	}
	for _, d := range decls {
		body.WriteString(d)
	}
	for i, e := range l.Ensures {
		fmt.Fprintf(&body, "\tfmt.Println(\"GOVC-ENS\", %d, %s)\n", i, e)
	}
	body.WriteString("\tfmt.Println(\"GOVC-RETURNED\")\n}\n")
	out, err := runReplayTest(filepath.Dir(l.File), p.Types.Name(), body.String(), imports, true)
	rep["replay_test"] = out
	out = replayOutput(out)
	if err != nil || !strings.Contains(out, "GOVC-RETURNED") {
		rep["replay"] = "replay run failed"
		return false
	}
	for _, ln := range strings.Split(out, "\n") {
		f := strings.Fields(ln)
		if len(f) == 3 && f[0] == "GOVC-ENS" && f[2] == "false" {
			rep["replay"] = "conclusion #" + f[1] + " of the lemma evaluates to false on the real functions for the model's input"
			return true
		}
	}
	rep["replay"] = "all conclusions evaluate to true on the real functions for the model's input (model not reproduced)"
	return false
}

func contextBackground() context.Context { return context.Background() }
