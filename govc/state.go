package main

import (
	"fmt"
	"go/types"
	"sort"
	"strings"
)

type deferred struct {
	run func(st *State)
}

type State struct {
	env    map[types.Object]Value
	glob   map[string]Value // package-level variables by qualified name
	heap   map[string]*Term
	famGen map[string]int // heap family prefix -> generation (for lazily created keys)
	pc     []*Term
	pcDec  []bool // parallel to pc: true for branch decisions (discriminators at merges)
	alloc  *Term  // allocation watermark (mathint); refs > alloc are fresh
	alloc0 *Term  // watermark at function entry
	dead   bool
	defers [][]deferred
	ghost  map[string]Value
	gen    int
}

func newState() *State {
	a := mkVar("alloc0", sortMath)
	defer func() {}()
	st0 := &State{env: map[types.Object]Value{}, glob: map[string]Value{}, heap: map[string]*Term{}, famGen: map[string]int{}, alloc: a, alloc0: a, ghost: map[string]Value{}}
	st0.assume(mkCmp("le", mkInt(sortMath, 0), a))
	return st0
}

func newStateUnused() *State {
	a := mkVar("alloc0", sortMath)
	return &State{env: map[types.Object]Value{}, glob: map[string]Value{}, heap: map[string]*Term{}, famGen: map[string]int{}, alloc: a, alloc0: a, ghost: map[string]Value{}}
}

func (s *State) clone() *State {
	n := &State{env: make(map[types.Object]Value, len(s.env)), glob: make(map[string]Value, len(s.glob)), heap: make(map[string]*Term, len(s.heap)), famGen: make(map[string]int, len(s.famGen)),
		alloc: s.alloc, alloc0: s.alloc0, dead: s.dead, ghost: make(map[string]Value, len(s.ghost)), gen: s.gen}
	for k, v := range s.env {
		n.env[k] = v
	}
	for k, v := range s.glob {
		n.glob[k] = v
	}
	for k, v := range s.heap {
		n.heap[k] = v
	}
	for k, v := range s.famGen {
		n.famGen[k] = v
	}
	for k, v := range s.ghost {
		n.ghost[k] = v
	}
	n.pc = append([]*Term(nil), s.pc...)
	n.pcDec = append([]bool(nil), s.pcDec...)
	n.defers = make([][]deferred, len(s.defers))
	for i, d := range s.defers {
		n.defers[i] = append([]deferred(nil), d...)
	}
	return n
}

func (s *State) assume(t *Term) { s.addFact(t, false) }

// decide records a branch decision: at a merge the decisions taken since the common ancestor discriminate the states.
func (s *State) decide(t *Term) { s.addFact(t, true) }

func (s *State) addFact(t *Term, dec bool) {
	for len(s.pcDec) < len(s.pc) {
		s.pcDec = append(s.pcDec, false)
	}
	if t.isTrue() {
		if dec {
			s.pc = append(s.pc, t)
			s.pcDec = append(s.pcDec, true)
		}
		return
	}
	if t.isFalse() {
		s.dead = true
	}
	if t.Op == "and" {
		for _, a := range t.Args {
			s.pc = append(s.pc, a)
			s.pcDec = append(s.pcDec, dec)
		}
		return
	}
	s.pc = append(s.pc, t)
	s.pcDec = append(s.pcDec, dec)
}

// ---- heap ----

func objKey(t types.Type, path string) string    { return "O|" + typeKey(t) + "|" + path }
func regionKey(t types.Type, path string) string { return "R|" + typeKey(t) + "|" + path }
func mapKey(t types.Type, path string) string    { return "M|" + typeKey(t) + "|" + path }

var heapSorts = map[string]*Sort{}

func (s *State) heapGet(key string, sort *Sort) *Term {
	if t, ok := s.heap[key]; ok {
		return t
	}
	g := 0
	for fam, n := range s.famGen {
		if strings.HasPrefix(key, fam) && n > g {
			g = n
		}
	}
	name := "H|" + key
	if g > 0 {
		name = fmt.Sprintf("H|%s|g%d", key, g)
	}
	t := mkVar(name, sort)
	s.heap[key] = t
	heapSorts[key] = sort
	registerHeapAxiom(t, g, s)
	return t
}

// References stored in a heap snapshot were allocated before the snapshot was taken: for the initial heap
// they are <= alloc0, for a havoced generation <= the allocation watermark at the time of the havoc.
var heapAxioms = map[string]*Term{}
var genBound = map[int]*Term{}

func registerHeapAxiom(v *Term, g int, s *State) {
	if _, ok := heapAxioms[v.Name]; ok {
		return
	}
	bound := s.alloc0
	if g > 0 {
		if b, ok := genBound[g]; ok {
			bound = b
		} else {
			return
		}
	}
	// find the leaf sort
	srt := v.Sort
	var idx []*Term
	cur := v
	for srt.K == SArray {
		i := freshVar("h", srt.Idx)
		idx = append(idx, i)
		cur = mkSelect(cur, i)
		srt = srt.Elem
	}
	if srt != sortRef || len(idx) == 0 {
		heapAxioms[v.Name] = tTrue
		return
	}
	heapAxioms[v.Name] = mkQuant("forall", idx, mkAnd(mkCmp("le", mkInt(sortRef, 0), cur), mkCmp("le", cur, bound)), []*Term{cur})
}

// heapAxiomsFor returns the axioms of the heap variables that occur in the given terms.
func heapAxiomsFor(ts []*Term) []*Term {
	seen := map[*Term]bool{}
	names := map[string]bool{}
	var rec func(t *Term)
	rec = func(t *Term) {
		if seen[t] {
			return
		}
		seen[t] = true
		if t.Op == "var" && strings.HasPrefix(t.Name, "H|") {
			names[t.Name] = true
		}
		for _, a := range t.Args {
			rec(a)
		}
	}
	for _, t := range ts {
		rec(t)
	}
	var out []*Term
	var ns []string
	for n := range names {
		ns = append(ns, n)
	}
	sort.Strings(ns)
	for _, n := range ns {
		if ax, ok := heapAxioms[n]; ok && !ax.isTrue() {
			out = append(out, ax)
		}
	}
	return out
}

var genCounter int

// havocFamily forgets everything about heap keys with the given prefix.
func (s *State) havocFamily(prefix string) {
	genCounter++
	s.famGen[prefix] = genCounter
	genBound[genCounter] = s.alloc
	for k := range s.heap {
		if strings.HasPrefix(k, prefix) {
			delete(s.heap, k)
		}
	}
}

func objSort(l Leaf) *Sort    { return arraySort(sortRef, l.Sort) }
func regionSort(l Leaf) *Sort { return arraySort(sortRef, arraySort(sortInt, l.Sort)) }

// readObj reads the value of type t stored at heap object ref.
func (s *State) readObj(t types.Type, ref *Term) Value {
	v := Value{T: t, L: map[string]*Term{}}
	for _, l := range leavesOf(t) {
		v.L[l.Path] = mkSelect(s.heapGet(objKey(t, l.Path), objSort(l)), ref)
	}
	s.assumeValid(v)
	return v
}

func (s *State) writeObj(t types.Type, ref *Term, v Value) {
	for _, l := range leavesOf(t) {
		k := objKey(t, l.Path)
		s.heap[k] = mkStore(s.heapGet(k, objSort(l)), ref, v.L[l.Path])
	}
}

func (s *State) readElem(et types.Type, ref, idx *Term) Value {
	v := Value{T: et, L: map[string]*Term{}}
	for _, l := range leavesOf(et) {
		v.L[l.Path] = mkSelect(mkSelect(s.heapGet(regionKey(et, l.Path), regionSort(l)), ref), idx)
	}
	s.assumeValid(v)
	return v
}

func (s *State) writeElem(et types.Type, ref, idx *Term, v Value) {
	for _, l := range leavesOf(et) {
		k := regionKey(et, l.Path)
		h := s.heapGet(k, regionSort(l))
		s.heap[k] = mkStore(h, ref, mkStore(mkSelect(h, ref), idx, v.L[l.Path]))
	}
}

// regionArr returns the content array (idx -> leaf) of region ref for element leaf l.
func (s *State) regionArr(et types.Type, l Leaf, ref *Term) *Term {
	return mkSelect(s.heapGet(regionKey(et, l.Path), regionSort(l)), ref)
}

func (s *State) setRegionArr(et types.Type, l Leaf, ref, arr *Term) {
	k := regionKey(et, l.Path)
	s.heap[k] = mkStore(s.heapGet(k, regionSort(l)), ref, arr)
}

func (s *State) assumeValid(v Value) {
	for _, f := range validFacts(v) {
		s.assume(f)
	}
	// references read from the heap were allocated before now
	for _, p := range sortedKeys(v.L) {
		t := v.L[p]
		if t.Sort == sortRef && (strings.HasSuffix(p, ".ref") || p == "") && t.Op != "const" {
			s.assume(mkCmp("le", t, s.alloc))
		}
	}
}

// newRef allocates a fresh reference.
func (s *State) newRef() *Term {
	n := mkArith("add", s.alloc, mkInt(sortMath, 1))
	s.alloc = n
	return n
}

// ---- lvalues ----

type lvKind int

const (
	lvVar lvKind = iota
	lvGlobal
	lvObj
	lvElem
	lvMapElem
	lvGhost
)

type step struct {
	field string     // ".name"
	idx   *Term      // or array index
	t     types.Type // type after the step
}

type LValue struct {
	kind  lvKind
	obj   types.Object
	gname string
	rootT types.Type // type of the root cell
	ref   *Term
	idx   *Term // element index (lvElem) or map key (lvMapElem)
	steps []step
}

func (lv *LValue) typ() types.Type {
	if len(lv.steps) == 0 {
		if lv.kind == lvMapElem {
			return lv.rootT.Underlying().(*types.Map).Elem()
		}
		return lv.rootT
	}
	return lv.steps[len(lv.steps)-1].t
}

func (lv *LValue) extend(st step) *LValue {
	n := *lv
	n.steps = append(append([]step(nil), lv.steps...), st)
	return &n
}

func (s *State) readRoot(lv *LValue) Value {
	switch lv.kind {
	case lvVar:
		v, ok := s.env[lv.obj]
		if !ok {
			panic(fmt.Sprintf("unbound variable %s", lv.obj.Name()))
		}
		return v
	case lvGlobal:
		return s.global(lv.gname, lv.rootT)
	case lvGhost:
		return s.ghost[lv.gname]
	case lvObj:
		return s.readObj(lv.rootT, lv.ref)
	case lvElem:
		return s.readElem(lv.rootT, lv.ref, lv.idx)
	case lvMapElem:
		return s.mapRead(lv.rootT, lv.ref, lv.idx)
	}
	panic("readRoot")
}

func (s *State) global(name string, t types.Type) Value {
	if v, ok := s.glob[name]; ok {
		return v
	}
	v := namedValue("G|"+name, t)
	s.glob[name] = v
	s.assumeValid(v)
	return v
}

func (s *State) readLV(lv *LValue) Value {
	// fast path for heap roots: only read the needed leaves
	prefix := ""
	var idxs []*Term
	for _, st := range lv.steps {
		if st.idx != nil {
			prefix += "[]"
			idxs = append(idxs, st.idx)
		} else {
			prefix += st.field
		}
	}
	t := lv.typ()
	out := Value{T: t, L: map[string]*Term{}}
	switch lv.kind {
	case lvObj, lvElem:
		for _, l := range leavesOf(t) {
			rl := Leaf{prefix + l.Path, wrapArr(l.Sort, len(idxs))}
			var base *Term
			if lv.kind == lvObj {
				base = mkSelect(s.heapGet(objKey(lv.rootT, rl.Path), objSort(rl)), lv.ref)
			} else {
				base = mkSelect(mkSelect(s.heapGet(regionKey(lv.rootT, rl.Path), regionSort(rl)), lv.ref), lv.idx)
			}
			for _, ix := range idxs {
				base = mkSelect(base, ix)
			}
			out.L[l.Path] = base
		}
		s.assumeValid(out)
		return out
	}
	root := s.readRoot(lv)
	for _, l := range leavesOf(t) {
		base, ok := root.L[prefix+l.Path]
		if !ok {
			panic(fmt.Sprintf("readLV: leaf %q missing in %s (have %v)", prefix+l.Path, root.T, root.paths()))
		}
		for _, ix := range idxs {
			base = mkSelect(base, ix)
		}
		out.L[l.Path] = base
	}
	if root.Loc != nil && len(lv.steps) == 0 {
		out.Loc = root.Loc
	}
	if root.Fn != nil && len(lv.steps) == 0 {
		out.Fn = root.Fn
	}
	return out
}

func wrapArr(s *Sort, n int) *Sort {
	for i := 0; i < n; i++ {
		s = arraySort(sortInt, s)
	}
	return s
}

func nestedStore(arr *Term, idxs []*Term, v *Term) *Term {
	if len(idxs) == 0 {
		return v
	}
	return mkStore(arr, idxs[0], nestedStore(mkSelect(arr, idxs[0]), idxs[1:], v))
}

func (s *State) writeLV(lv *LValue, v Value) {
	prefix := ""
	var idxs []*Term
	for _, st := range lv.steps {
		if st.idx != nil {
			prefix += "[]"
			idxs = append(idxs, st.idx)
		} else {
			prefix += st.field
		}
	}
	t := lv.typ()
	switch lv.kind {
	case lvObj, lvElem:
		for _, l := range leavesOf(t) {
			rl := Leaf{prefix + l.Path, wrapArr(l.Sort, len(idxs))}
			if lv.kind == lvObj {
				k := objKey(lv.rootT, rl.Path)
				h := s.heapGet(k, objSort(rl))
				s.heap[k] = mkStore(h, lv.ref, nestedStore(mkSelect(h, lv.ref), idxs, v.L[l.Path]))
			} else {
				k := regionKey(lv.rootT, rl.Path)
				h := s.heapGet(k, regionSort(rl))
				row := mkSelect(h, lv.ref)
				s.heap[k] = mkStore(h, lv.ref, mkStore(row, lv.idx, nestedStore(mkSelect(row, lv.idx), idxs, v.L[l.Path])))
			}
		}
		return
	}
	root := s.readRoot(lv)
	nr := Value{T: root.T, L: make(map[string]*Term, len(root.L))}
	for _, p := range sortedKeys(root.L) {
		x := root.L[p]
		_ = x
		nr.L[p] = x
	}
	for _, l := range leavesOf(t) {
		nr.L[prefix+l.Path] = nestedStore(root.L[prefix+l.Path], idxs, v.L[l.Path])
	}
	if len(lv.steps) == 0 {
		nr.Loc = v.Loc
		nr.Fn = v.Fn
	}
	switch lv.kind {
	case lvVar:
		s.env[lv.obj] = nr
	case lvGlobal:
		s.glob[lv.gname] = nr
	case lvGhost:
		s.ghost[lv.gname] = nr
	case lvMapElem:
		s.mapWrite(lv.rootT, lv.ref, lv.idx, nr)
	}
}

// ---- maps: rootT is the map type ----

func mapParts(mt types.Type) (*types.Map, *Sort) {
	m := mt.Underlying().(*types.Map)
	kl := leavesOf(m.Key())
	if len(kl) != 1 || kl[0].Path != "" {
		unsupp("map key type %s", m.Key())
	}
	return m, kl[0].Sort
}

func (s *State) mapDom(mt types.Type, ref *Term) *Term {
	_, ks := mapParts(mt)
	return mkSelect(s.heapGet(mapKey(mt, "dom"), arraySort(sortRef, arraySort(ks, sortBool))), ref)
}

func (s *State) mapLen(mt types.Type, ref *Term) *Term {
	return mkSelect(s.heapGet(mapKey(mt, "len"), arraySort(sortRef, sortInt)), ref)
}

func (s *State) mapHas(mt types.Type, ref, key *Term) *Term {
	return mkSelect(s.mapDom(mt, ref), key)
}

// mapRead returns the stored value (meaningful only if key in dom; zero value otherwise is applied by caller).
func (s *State) mapRead(mt types.Type, ref, key *Term) Value {
	m, ks := mapParts(mt)
	v := Value{T: m.Elem(), L: map[string]*Term{}}
	for _, l := range leavesOf(m.Elem()) {
		h := s.heapGet(mapKey(mt, "v"+l.Path), arraySort(sortRef, arraySort(ks, l.Sort)))
		v.L[l.Path] = mkSelect(mkSelect(h, ref), key)
	}
	return v
}

func (s *State) mapWrite(mt types.Type, ref, key *Term, v Value) {
	m, ks := mapParts(mt)
	has := s.mapHas(mt, ref, key)
	for _, l := range leavesOf(m.Elem()) {
		k := mapKey(mt, "v"+l.Path)
		h := s.heapGet(k, arraySort(sortRef, arraySort(ks, l.Sort)))
		s.heap[k] = mkStore(h, ref, mkStore(mkSelect(h, ref), key, v.L[l.Path]))
	}
	dk := mapKey(mt, "dom")
	dh := s.heapGet(dk, arraySort(sortRef, arraySort(ks, sortBool)))
	s.heap[dk] = mkStore(dh, ref, mkStore(mkSelect(dh, ref), key, tTrue))
	lk := mapKey(mt, "len")
	lh := s.heapGet(lk, arraySort(sortRef, sortInt))
	ol := mkSelect(lh, ref)
	s.heap[lk] = mkStore(lh, ref, mkIte(has, ol, mkArith("add", ol, mkInt(sortInt, 1))))
}

func (s *State) mapDelete(mt types.Type, ref, key *Term) {
	_, ks := mapParts(mt)
	has := s.mapHas(mt, ref, key)
	dk := mapKey(mt, "dom")
	dh := s.heapGet(dk, arraySort(sortRef, arraySort(ks, sortBool)))
	s.heap[dk] = mkStore(dh, ref, mkStore(mkSelect(dh, ref), key, tFalse))
	lk := mapKey(mt, "len")
	lh := s.heapGet(lk, arraySort(sortRef, sortInt))
	ol := mkSelect(lh, ref)
	s.heap[lk] = mkStore(lh, ref, mkIte(has, mkArith("sub", ol, mkInt(sortInt, 1)), ol))
}

// ---- merging ----

func condOf(pc []*Term, from int) *Term {
	if from >= len(pc) {
		return tTrue
	}
	return mkAnd(pc[from:]...)
}

func mergeValues(conds []*Term, vals []Value) Value {
	v0 := vals[0]
	same := true
	for _, v := range vals[1:] {
		if len(v.L) != len(v0.L) {
			same = false
			break
		}
		for _, p := range sortedKeys(v0.L) {
			t := v0.L[p]
			_ = t
			if v.L[p] != t {
				same = false
				break
			}
		}
		if v.Loc != v0.Loc || v.Fn != v0.Fn {
			if v.Loc != nil || v0.Loc != nil {
				if !(v.Loc != nil && v0.Loc != nil && sameLV(v.Loc, v0.Loc)) {
					unsupp("merge of distinct static pointers")
				}
			}
			if v.Fn != v0.Fn {
				unsupp("merge of distinct function values")
			}
		}
	}
	if same {
		return v0
	}
	out := Value{T: v0.T, L: make(map[string]*Term, len(v0.L)), Loc: v0.Loc, Fn: v0.Fn}
	for _, p := range sortedKeys(v0.L) {
		acc := vals[len(vals)-1].L[p]
		if acc == nil {
			unsupp("merge: leaf %s missing", p)
		}
		for i := len(vals) - 2; i >= 0; i-- {
			x := vals[i].L[p]
			if x == nil {
				unsupp("merge: leaf %s missing", p)
			}
			acc = mkIte(conds[i], x, acc)
		}
		out.L[p] = acc
	}
	return out
}

func sameLV(a, b *LValue) bool {
	if a.kind != b.kind || a.obj != b.obj || a.gname != b.gname || a.ref != b.ref || a.idx != b.idx || len(a.steps) != len(b.steps) {
		return false
	}
	for i := range a.steps {
		if a.steps[i].field != b.steps[i].field || a.steps[i].idx != b.steps[i].idx {
			return false
		}
	}
	return true
}

// mergeStates joins live states that all extend a common path-condition prefix of length base.
func mergeStates(base int, states []*State) *State {
	var live []*State
	for _, s := range states {
		if s != nil && !s.dead {
			live = append(live, s)
		}
	}
	if len(live) == 0 {
		return nil
	}
	if len(live) == 1 {
		return live[0]
	}
	conds := make([]*Term, len(live))
	useDec := true
	for _, s := range live {
		for len(s.pcDec) < len(s.pc) {
			s.pcDec = append(s.pcDec, false)
		}
		has := false
		for k := base; k < len(s.pc); k++ {
			if s.pcDec[k] {
				has = true
			}
		}
		if !has {
			useDec = false
		}
	}
	out := live[0].clone()
	out.pc = append([]*Term(nil), live[0].pc[:base]...)
	out.pcDec = append([]bool(nil), live[0].pcDec[:base]...)
	if useDec {
		var facts []*Term
		for i, s := range live {
			var ds, fs []*Term
			for k := base; k < len(s.pc); k++ {
				if s.pcDec[k] {
					ds = append(ds, s.pc[k])
				} else {
					fs = append(fs, s.pc[k])
				}
			}
			conds[i] = mkAnd(ds...)
			for _, f := range fs {
				facts = append(facts, mkImplies(conds[i], f))
			}
		}
		out.assume(mkOr(conds...))
		for _, f := range facts {
			out.assume(f)
		}
	} else {
		for i, s := range live {
			conds[i] = condOf(s.pc, base)
		}
		out.assume(mkOr(conds...))
	}
	// env
	for obj := range live[0].env {
		vals := make([]Value, 0, len(live))
		ok := true
		for _, s := range live {
			v, has := s.env[obj]
			if !has {
				ok = false
				break
			}
			vals = append(vals, v)
		}
		if !ok {
			delete(out.env, obj)
			continue
		}
		out.env[obj] = mergeValues(conds, vals)
	}
	mergeMaps := func(get func(s *State) map[string]Value, set func(k string, v Value)) {
		keys := map[string]bool{}
		for _, s := range live {
			for k := range get(s) {
				keys[k] = true
			}
		}
		for k := range keys {
			vals := make([]Value, 0, len(live))
			for _, s := range live {
				v, has := get(s)[k]
				if !has && strings.HasPrefix(k, "calls:") {
					// ghost call counters: 0 before any havoc of counters, else the generation's variable
					v = scalarV(mathintType, mkInt(sortMath, 0))
					has = true
				}
				if !has && (k == "aead.open.ok" || k == "aead.seal.ok") {
					// no such AEAD operation on that path
					v = boolV(tFalse)
					has = true
				}
				if !has && get(live[0]) != nil && !strings.HasPrefix(k, "calls:") {
					// ghost bookkeeping without a Go type (sort witnesses, AEAD trace): keep only if present everywhere
					untyped := false
					for _, s2 := range live {
						if v2, ok := get(s2)[k]; ok && v2.T == nil {
							untyped = true
						}
					}
					if untyped {
						vals = nil
						break
					}
				}
				if !has {
					// lazily materialise with the deterministic initial name
					var t types.Type
					for _, s2 := range live {
						if v2, ok := get(s2)[k]; ok {
							t = v2.T
						}
					}
					v = namedValue("G|"+k, t)
				}
				vals = append(vals, v)
			}
			if vals == nil {
				set(k, Value{})
				continue
			}
			set(k, mergeValues(conds, vals))
		}
	}
	mergeMaps(func(s *State) map[string]Value { return s.glob }, func(k string, v Value) { out.glob[k] = v })
	mergeMaps(func(s *State) map[string]Value { return s.ghost }, func(k string, v Value) {
		if v.L == nil {
			delete(out.ghost, k)
			return
		}
		out.ghost[k] = v
	})
	// heap
	// every key ever touched anywhere (keys are materialised lazily, possibly only in discarded clones)
	hkeys := map[string]bool{}
	for k := range heapSorts {
		hkeys[k] = true
	}
	for _, s := range live {
		for k := range s.heap {
			hkeys[k] = true
		}
	}
	var hk []string
	for k := range hkeys {
		hk = append(hk, k)
	}
	sort.Strings(hk)
	for _, k := range hk {
		ts := make([]*Term, len(live))
		same := true
		for i, s := range live {
			ts[i] = s.heapGet(k, heapSorts[k])
			if ts[i] != ts[0] && !(ts[i].Op == "var" && ts[0].Op == "var" && ts[i].Name == ts[0].Name) {
				same = false
			}
		}
		if same {
			out.heap[k] = ts[0]
			continue
		}
		acc := ts[len(ts)-1]
		for i := len(ts) - 2; i >= 0; i-- {
			acc = mkIte(conds[i], ts[i], acc)
		}
		out.heap[k] = acc
	}
	for _, s := range live {
		for f, g := range s.famGen {
			if g > out.famGen[f] {
				out.famGen[f] = g
			}
		}
	}
	// alloc
	acc := live[len(live)-1].alloc
	for i := len(live) - 2; i >= 0; i-- {
		if live[i].alloc != acc {
			acc = mkIte(conds[i], live[i].alloc, acc)
		}
	}
	out.alloc = acc
	// defers must agree
	for _, s := range live[1:] {
		if len(s.defers) != len(out.defers) {
			unsupp("merge: defer stacks differ")
		}
		for i := range s.defers {
			if len(s.defers[i]) != len(out.defers[i]) {
				unsupp("merge: path-dependent defer (frame %d: %d vs %d deferred calls; %d live states)", i, len(s.defers[i]), len(out.defers[i]), len(live))
			}
		}
	}
	return out
}
