package main

// Forward symbolic execution with state merging; loops are cut at invariants; calls are modular
// (callee contract) or inlined (no contract / `inline`).  Every check becomes an Obligation.

import (
	"bytes"
	"fmt"
	"go/ast"
	"go/printer"
	"go/token"
	"go/types"
	"sort"
	"strings"
	"time"
)

type Obligation struct {
	Name    string
	Kind    string // safety:index, ensures, requires, loop-init, loop-preserve, variant, frame, panic, cover, lemma ...
	Func    string
	Pos     string
	Site    string
	Clause  string
	Label   string
	Facts   []*Term
	Goal    *Term
	Cover   bool // expected sat
	Inputs  []namedTerm
	Res     SolverRes
	Status  string // proved | refuted | undecided | trivial
	Bounded string
	Replay  *ReplayInfo
	Budget  time.Duration // solver budget override (known findings)
}

type namedTerm struct {
	Name string
	T    *Term
}

type retState struct {
	st   *State
	vals []Value
}

type loopCtx struct {
	label     string
	breaks    []*State
	continues []*State
	isSwitch  bool
}

type Frame struct {
	fn      *FuncInfo
	info    *types.Info
	pkg     *types.Package
	sig     *types.Signature
	results []types.Object // named result objects (or nil)
	returns []retState
	loops   []*loopCtx
	loopOrd []int
	lit     bool
	entry   map[string]Value // contract entry names
	oldSt   *State
	bind    map[string]Value // parameter names -> entry values (function under verification)
	modLocs []modLoc
	ifOrd   map[*ast.IfStmt]int
}

type Exec struct {
	vc           *VC
	top          *FuncInfo
	frames       []*Frame
	obls         []*Obligation
	spec         int
	oldSt        *State
	siteSeen     map[string]int
	conts        [][]ast.Stmt
	nInline      int
	pendingLabel string
	assumed      map[string]bool // assumptions used (models, pure externals, ...)
	bounded      string
	unroll       int
	boundObjs    []types.Object
	assuming     int
	loopEntry    *State
	loopHead     *State
	mute         int            // >0: checks are assumed, not recorded (auxiliary executions)
	rangeIdx     []types.Object // hidden index variables of the enclosing range loops (innermost last)
}

func (ex *Exec) frame() *Frame     { return ex.frames[len(ex.frames)-1] }
func (ex *Exec) info() *types.Info { return ex.frame().info }

func (ex *Exec) src(n ast.Node) string {
	var buf bytes.Buffer
	printer.Fprint(&buf, ex.vc.fset, n)
	s := buf.String()
	s = strings.Join(strings.Fields(s), " ")
	if len(s) > 60 {
		s = s[:60]
	}
	return s
}

func (ex *Exec) pos(n ast.Node) string {
	if n == nil {
		return ""
	}
	p := ex.vc.fset.Position(n.Pos())
	return fmt.Sprintf("%s:%d", strings.TrimPrefix(p.Filename, repoRoot+"/"), p.Line)
}

func (ex *Exec) note(a string) {
	if ex.assumed != nil {
		ex.assumed[a] = true
	}
}

// check records an obligation: under the current path condition, goal holds. Afterwards the goal is assumed.
func (ex *Exec) check(st *State, goal *Term, kind string, n ast.Node, site string) {
	if ex.spec > 0 || st.dead {
		return
	}
	if ex.mute > 0 && kind != "variant-first" {
		st.assume(goal)
		return
	}
	if site == "" && n != nil {
		site = ex.src(n)
	}
	inl := ""
	if len(ex.frames) > 1 && ex.frame().fn != nil && ex.frame().fn != ex.top {
		inl = "<" + ex.frame().fn.Short + ">"
	}
	goal = ex.simplifyGoal(st, goal)
	key := kind + "@" + inl + site
	ex.siteSeen[key]++
	name := fmt.Sprintf("%s/%s", ex.top.Short, key)
	if c := ex.siteSeen[key]; c > 1 {
		name += fmt.Sprintf("#%d", c)
	}
	// a conjunction is discharged conjunct by conjunct (smaller, more stable queries)
	parts := []*Term{goal}
	if !strings.HasPrefix(kind, "safety") {
		parts = splitGoal(goal)
	}
	facts := append([]*Term(nil), st.pc...)
	for k, g := range parts {
		nm := name
		if len(parts) > 1 {
			nm = fmt.Sprintf("%s.%d", name, k)
		}
		o := &Obligation{Name: nm, Kind: kind, Func: ex.top.Short, Pos: ex.pos(n), Site: site, Goal: g, Facts: facts, Bounded: ex.bounded}
		if g.isTrue() {
			o.Status = "trivial"
		}
		ex.obls = append(ex.obls, o)
	}
	if _, _, fp, _ := featureScan([]*Term{goal}); fp && !strings.HasPrefix(kind, "loop") {
		// redundant once proved; the portfolio may leave such float lemmas out of later queries
		lemmaFacts[goal] = true
		if goal.Op == "and" {
			for _, a := range goal.Args {
				lemmaFacts[a] = true
			}
		}
	}
	st.assume(goal)
}

func (st *State) become(o *State) {
	if o == nil {
		st.dead = true
		return
	}
	*st = *o
}

// ---------------------------------------------------------------------------------
// statements

func (ex *Exec) execBlock(stmts []ast.Stmt, st *State) {
	for i, s := range stmts {
		if st.dead {
			return
		}
		if ex.splitActive() {
			switch x := s.(type) {
			case *ast.IfStmt:
				if ex.splitOrd(x) {
					ex.splitIf(x, stmts[i+1:], st)
					return
				}
				// not split itself, but a nested if may be: its continuation is the rest of this block
				ex.pushCont(stmts[i+1:])
				ex.execStmt(s, st)
				ex.popCont()
				continue
			case *ast.BlockStmt:
				ex.pushCont(stmts[i+1:])
				ex.execBlock(x.List, st)
				ex.popCont()
				continue
			}
		}
		ex.execStmt(s, st)
	}
}

// ---- path splitting (//@ split): selected if statements of the function under verification fork the execution;
// every fork runs the rest of the function on its own (continuation stack), so that postconditions and invariants are
// checked per path instead of over a merged state ----

func (ex *Exec) splitActive() bool {
	if len(ex.frames) != 1 {
		return false
	}
	f := ex.frames[0]
	return f.fn != nil && f.fn.Con != nil && len(f.fn.Con.Split) > 0 && !f.lit && len(f.loops) == 0
}

func (ex *Exec) splitOrd(s *ast.IfStmt) bool {
	f := ex.frames[0]
	if f.ifOrd == nil {
		f.ifOrd = map[*ast.IfStmt]int{}
		n := 0
		var walk func(x ast.Node, inLoop bool)
		walk = func(x ast.Node, inLoop bool) {
			ast.Inspect(x, func(y ast.Node) bool {
				switch z := y.(type) {
				case *ast.FuncLit:
					return false
				case *ast.ForStmt:
					if y != x {
						walk(z.Body, true)
						return false
					}
				case *ast.RangeStmt:
					if y != x {
						walk(z.Body, true)
						return false
					}
				case *ast.SwitchStmt, *ast.TypeSwitchStmt, *ast.SelectStmt:
					if y != x {
						return false
					}
				case *ast.IfStmt:
					if !inLoop {
						f.ifOrd[z] = n
						n++
					}
				}
				return true
			})
		}
		walk(f.fn.Decl.Body, false)
	}
	ord, ok := f.ifOrd[s]
	return ok && f.fn.Con.Split[ord]
}

func (ex *Exec) pushCont(rest []ast.Stmt) {
	ex.conts = append(ex.conts[:len(ex.conts):len(ex.conts)], rest)
}

func (ex *Exec) popCont() { ex.conts = ex.conts[:len(ex.conts)-1] }

// runConts executes the pending continuations (innermost first) on st until the function returns.
func (ex *Exec) runConts(st *State) {
	saved := ex.conts
	for len(ex.conts) > 0 && !st.dead {
		k := ex.conts[len(ex.conts)-1]
		ex.conts = ex.conts[:len(ex.conts)-1]
		ex.execBlock(k, st)
	}
	if !st.dead {
		ex.implicitReturn(st)
	}
	ex.conts = saved
}

func (ex *Exec) splitIf(s *ast.IfStmt, rest []ast.Stmt, st *State) {
	if s.Init != nil {
		ex.execStmt(s.Init, st)
	}
	c := ex.eval(s.Cond, st).scalar()
	a := st.clone()
	a.decide(c)
	b := st.clone()
	b.decide(mkNot(c))
	ex.pushCont(rest)
	saved := ex.conts
	ex.execBlock(s.Body.List, a)
	if !a.dead {
		ex.runConts(a)
	}
	ex.conts = saved
	if s.Else != nil {
		switch e := s.Else.(type) {
		case *ast.BlockStmt:
			ex.execBlock(e.List, b)
		default:
			ex.execBlock([]ast.Stmt{e}, b)
		}
	}
	if !b.dead {
		ex.runConts(b)
	}
	ex.conts = saved
	ex.popCont()
	st.dead = true
}

// implicitReturn: falling off the end of the function under verification.
func (ex *Exec) implicitReturn(st *State) {
	f0 := ex.frames[0]
	var vals []Value
	if f0.sig.Results().Len() > 0 {
		if f0.results == nil {
			st.dead = true
			return
		}
		for _, o := range f0.results {
			vals = append(vals, st.env[o])
		}
	}
	ex.doReturn(st, vals)
}

func (ex *Exec) execStmt(s ast.Stmt, st *State) {
	if st.dead {
		return
	}
	switch s := s.(type) {
	case *ast.BlockStmt:
		ex.execBlock(s.List, st)
	case *ast.EmptyStmt:
	case *ast.ExprStmt:
		ex.evalMulti(s.X, st)
	case *ast.AssignStmt:
		ex.execAssign(s, st)
	case *ast.IncDecStmt:
		lv := ex.lvalue(s.X, st)
		v := st.readLV(lv)
		one := mkInt(v.scalar().Sort, 1)
		op := "add"
		if s.Tok == token.DEC {
			op = "sub"
		}
		ex.assign(lv, scalarV(v.T, mkArith(op, v.scalar(), one)), st, s)
	case *ast.DeclStmt:
		gd := s.Decl.(*ast.GenDecl)
		if gd.Tok != token.VAR {
			return
		}
		for _, sp := range gd.Specs {
			vs := sp.(*ast.ValueSpec)
			var vals []Value
			if len(vs.Values) == 1 && len(vs.Names) == 2 {
				vals = ex.evalTuple2(vs.Values[0], st)
			} else if len(vs.Values) == 1 && len(vs.Names) > 1 {
				vals = ex.evalMulti(vs.Values[0], st)
			} else {
				for _, e := range vs.Values {
					vals = append(vals, ex.eval(e, st))
				}
			}
			for i, id := range vs.Names {
				obj := ex.info().Defs[id]
				if obj == nil {
					continue
				}
				if i < len(vals) {
					st.env[obj] = ex.convertTo(vals[i], obj.Type(), st)
				} else {
					st.env[obj] = zeroValue(obj.Type())
				}
			}
		}
	case *ast.IfStmt:
		ex.execIf(s, st)
	case *ast.ForStmt:
		ex.execFor(s, st, ex.takeLabel())
	case *ast.RangeStmt:
		ex.execRange(s, st, ex.takeLabel())
	case *ast.SwitchStmt:
		ex.execSwitch(s, st, ex.takeLabel())
	case *ast.SelectStmt:
		ex.execSelect(s, st, ex.takeLabel())
	case *ast.LabeledStmt:
		ex.pendingLabel = s.Label.Name
		ex.execStmt(s.Stmt, st)
	case *ast.BranchStmt:
		ex.execBranch(s, st)
	case *ast.ReturnStmt:
		ex.execReturn(s, st)
	case *ast.DeferStmt:
		ex.execDefer(s, st)
	case *ast.GoStmt:
		ex.execGo(s, st)
	case *ast.SendStmt:
		ex.eval(s.Chan, st)
		ex.eval(s.Value, st)
	default:
		unsupp("statement %T", s)
	}
}

func (ex *Exec) takeLabel() string {
	l := ex.pendingLabel
	ex.pendingLabel = ""
	return l
}

func (ex *Exec) execAssign(s *ast.AssignStmt, st *State) {
	if s.Tok != token.ASSIGN && s.Tok != token.DEFINE {
		// op-assign
		lv := ex.lvalue(s.Lhs[0], st)
		cur := st.readLV(lv)
		rhs := ex.eval(s.Rhs[0], st)
		op := map[token.Token]token.Token{token.ADD_ASSIGN: token.ADD, token.SUB_ASSIGN: token.SUB, token.MUL_ASSIGN: token.MUL, token.QUO_ASSIGN: token.QUO, token.REM_ASSIGN: token.REM,
			token.AND_ASSIGN: token.AND, token.OR_ASSIGN: token.OR, token.XOR_ASSIGN: token.XOR, token.SHL_ASSIGN: token.SHL, token.SHR_ASSIGN: token.SHR, token.AND_NOT_ASSIGN: token.AND_NOT}[s.Tok]
		res := ex.binop(op, cur, rhs, cur.T, st, s)
		ex.assign(lv, res, st, s)
		return
	}
	var vals []Value
	if len(s.Rhs) == 1 && len(s.Lhs) > 1 {
		if len(s.Lhs) == 2 {
			vals = ex.evalTuple2(s.Rhs[0], st)
		} else {
			vals = ex.evalMulti(s.Rhs[0], st)
		}
		if len(vals) != len(s.Lhs) {
			unsupp("assignment arity %s", ex.src(s))
		}
	} else {
		for _, e := range s.Rhs {
			vals = append(vals, ex.eval(e, st))
		}
	}
	// evaluate lvalues (index expressions etc.) before assigning, as Go does
	type tgt struct {
		lv  *LValue
		obj types.Object
	}
	tgts := make([]tgt, len(s.Lhs))
	for i, l := range s.Lhs {
		if id, ok := l.(*ast.Ident); ok {
			if id.Name == "_" {
				continue
			}
			if s.Tok == token.DEFINE {
				if obj := ex.info().Defs[id]; obj != nil {
					tgts[i] = tgt{obj: obj}
					continue
				}
			}
		}
		tgts[i] = tgt{lv: ex.lvalue(l, st)}
	}
	for i, t := range tgts {
		switch {
		case t.obj != nil:
			st.env[t.obj] = ex.nameFloat(ex.convertTo(vals[i], t.obj.Type(), st), t.obj.Name(), st)
		case t.lv != nil:
			ex.assign(t.lv, ex.convertTo(vals[i], t.lv.typ(), st), st, s)
		}
	}
}

func (ex *Exec) execIf(s *ast.IfStmt, st *State) {
	if s.Init != nil {
		ex.execStmt(s.Init, st)
	}
	c := ex.eval(s.Cond, st).scalar()
	base := len(st.pc)
	a := st.clone()
	a.decide(c)
	b := st
	b.decide(mkNot(c))
	ex.execBlock(s.Body.List, a)
	if s.Else != nil {
		ex.execStmt(s.Else, b)
	}
	bb := b.clone()
	st.become(mergeStates(base, []*State{a, bb}))
}

func (ex *Exec) execSwitch(s *ast.SwitchStmt, st *State, label string) {
	if s.Init != nil {
		ex.execStmt(s.Init, st)
	}
	var tag *Value
	if s.Tag != nil {
		v := ex.eval(s.Tag, st)
		tag = &v
	}
	lc := &loopCtx{label: label, isSwitch: true}
	f := ex.frame()
	f.loops = append(f.loops, lc)
	base := len(st.pc)
	var outs []*State
	cur := st.clone()
	var deflt *ast.CaseClause
	for _, cc := range s.Body.List {
		cc := cc.(*ast.CaseClause)
		if cc.List == nil {
			deflt = cc
			continue
		}
		var conds []*Term
		for _, e := range cc.List {
			if tag != nil {
				conds = append(conds, ex.equal(*tag, ex.convertTo(ex.eval(e, cur), tag.T, cur)))
			} else {
				conds = append(conds, ex.eval(e, cur).scalar())
			}
		}
		c := mkOr(conds...)
		br := cur.clone()
		br.decide(c)
		cur.decide(mkNot(c))
		ex.execBlock(cc.Body, br)
		for _, x := range cc.Body {
			if b, ok := x.(*ast.BranchStmt); ok && b.Tok == token.FALLTHROUGH {
				unsupp("fallthrough")
			}
		}
		outs = append(outs, br)
	}
	if deflt != nil {
		ex.execBlock(deflt.Body, cur)
	}
	outs = append(outs, cur)
	f.loops = f.loops[:len(f.loops)-1]
	outs = append(outs, lc.breaks...)
	st.become(mergeStates(base, outs))
}

func (ex *Exec) execSelect(s *ast.SelectStmt, st *State, label string) {
	lc := &loopCtx{label: label, isSwitch: true}
	f := ex.frame()
	f.loops = append(f.loops, lc)
	base := len(st.pc)
	var outs []*State
	n := len(s.Body.List)
	choice := freshVar("select", sortInt)
	for i, cc := range s.Body.List {
		cc := cc.(*ast.CommClause)
		br := st.clone()
		if i < n-1 {
			br.decide(mkEq(choice, mkInt(sortInt, int64(i))))
		} else {
			// last case: everything else
			var others []*Term
			for j := 0; j < n-1; j++ {
				others = append(others, mkNot(mkEq(choice, mkInt(sortInt, int64(j)))))
			}
			br.decide(mkAnd(others...))
		}
		if cc.Comm != nil {
			ex.execStmt(cc.Comm, br)
		}
		ex.execBlock(cc.Body, br)
		outs = append(outs, br)
	}
	f.loops = f.loops[:len(f.loops)-1]
	outs = append(outs, lc.breaks...)
	st.become(mergeStates(base, outs))
}

func (ex *Exec) execBranch(s *ast.BranchStmt, st *State) {
	f := ex.frame()
	label := ""
	if s.Label != nil {
		label = s.Label.Name
	}
	switch s.Tok {
	case token.BREAK:
		for i := len(f.loops) - 1; i >= 0; i-- {
			lc := f.loops[i]
			if label == "" || lc.label == label {
				lc.breaks = append(lc.breaks, st.clone())
				st.dead = true
				return
			}
		}
	case token.CONTINUE:
		for i := len(f.loops) - 1; i >= 0; i-- {
			lc := f.loops[i]
			if lc.isSwitch {
				continue
			}
			if label == "" || lc.label == label {
				lc.continues = append(lc.continues, st.clone())
				st.dead = true
				return
			}
		}
	}
	unsupp("branch statement %s", ex.src(s))
}

func (ex *Exec) execReturn(s *ast.ReturnStmt, st *State) {
	f := ex.frame()
	var vals []Value
	nres := f.sig.Results().Len()
	if len(s.Results) == 0 && nres > 0 {
		for _, o := range f.results {
			vals = append(vals, st.env[o])
		}
	} else if len(s.Results) == 1 && nres > 1 {
		vals = ex.evalMulti(s.Results[0], st)
	} else {
		for _, e := range s.Results {
			vals = append(vals, ex.eval(e, st))
		}
	}
	for i := range vals {
		vals[i] = ex.convertTo(vals[i], f.sig.Results().At(i).Type(), st)
	}
	ex.doReturn(st, vals)
}

// doReturn runs deferred calls and records the exit state.
func (ex *Exec) doReturn(st *State, vals []Value) {
	f := ex.frame()
	if st.dead {
		return
	}
	// named results are visible to deferred functions
	if f.results != nil {
		for i, o := range f.results {
			if o != nil && i < len(vals) {
				st.env[o] = vals[i]
			}
		}
	}
	ds := st.defers[len(st.defers)-1]
	st.defers[len(st.defers)-1] = nil
	for i := len(ds) - 1; i >= 0; i-- {
		if st.dead {
			return
		}
		ds[i].run(st)
	}
	if st.dead {
		return
	}
	if f.results != nil {
		for i, o := range f.results {
			if o != nil && i < len(vals) {
				vals[i] = st.env[o]
			}
		}
	}
	f.returns = append(f.returns, retState{st.clone(), vals})
	st.dead = true
}

func (ex *Exec) execDefer(s *ast.DeferStmt, st *State) {
	// arguments are evaluated now; the call runs at function exit
	call := s.Call
	if lit, ok := call.Fun.(*ast.FuncLit); ok {
		var args []Value
		for _, a := range call.Args {
			args = append(args, ex.eval(a, st))
		}
		fv := &FuncVal{Lit: lit, Info: ex.info(), Pkg: ex.frame().pkg}
		st.defers[len(st.defers)-1] = append(st.defers[len(st.defers)-1], deferred{run: func(st2 *State) {
			ex.callLit(fv, args, st2, call)
		}})
		return
	}
	info := ex.info()
	pkg := ex.frame().pkg
	fr := ex.frame()
	st.defers[len(st.defers)-1] = append(st.defers[len(st.defers)-1], deferred{run: func(st2 *State) {
		// evaluated late (sound for the forms used here: method calls on unchanged receivers)
		_ = info
		_ = pkg
		_ = fr
		ex.evalMulti(call, st2)
	}})
}

func (ex *Exec) execGo(s *ast.GoStmt, st *State) {
	var args []Value
	for _, a := range s.Call.Args {
		args = append(args, ex.eval(a, st))
	}
	// contract on the arguments handed to the spawned goroutine (keyed by the ordinal of the go statement)
	if f := ex.frame(); f.fn != nil && f.fn.Con != nil && !f.lit && f.fn.Decl.Body != nil {
		ord := -1
		n := 0
		ast.Inspect(f.fn.Decl.Body, func(x ast.Node) bool {
			if g, ok := x.(*ast.GoStmt); ok {
				if g == s {
					ord = n
				}
				n++
			}
			return true
		})
		if cs := f.fn.Con.Spawns[fmt.Sprint(ord)]; len(cs) > 0 {
			bind := map[string]Value{}
			if lit, ok := s.Call.Fun.(*ast.FuncLit); ok {
				i := 0
				for _, pf := range lit.Type.Params.List {
					for _, pn := range pf.Names {
						if i < len(args) {
							bind[pn.Name] = args[i]
						}
						i++
					}
				}
			}
			for k, c := range cs {
				g := ex.evalClause(c, st, f.oldSt, bind)
				ex.check(st, g, "go-requires", s, fmt.Sprintf("go%d/requires#%d", ord, k))
			}
		}
	}
	ex.note("go statement: the spawned goroutine is opaque; everything it may write is havoced at the spawn site")
	var body ast.Node
	if lit, ok := s.Call.Fun.(*ast.FuncLit); ok {
		body = lit.Body
	}
	if body != nil {
		w := ex.scanWrites(body, ex.info())
		ex.havocWrites(w, st, true)
	}
}

// ---------------------------------------------------------------------------------
// loops

type writes struct {
	vars               map[types.Object]bool
	globs              map[string]types.Type
	fams               map[string]bool
	all                bool
	calls              map[string]bool       // ghost call counters (interface methods with contracts) possibly advanced
	ghosts             map[string]bool       // other ghost values ([]byte snapshots) possibly replaced
	binReads           map[string]types.Type // ghost lastreadof(T) possibly replaced
	ints               map[string]bool       // integer ghosts possibly replaced
	bools              map[string]bool       // boolean ghosts possibly replaced
	layerParser        bool                  // a gopacket parser decodes into its registered layers
	aeadOpen, aeadSeal bool                  // the ghost trace of the last AEAD open / seal possibly replaced
}

func newWrites() *writes {
	return &writes{vars: map[types.Object]bool{}, globs: map[string]types.Type{}, fams: map[string]bool{}, calls: map[string]bool{}, ghosts: map[string]bool{}, binReads: map[string]types.Type{}, ints: map[string]bool{}, bools: map[string]bool{}}
}

func (ex *Exec) havocWrites(w *writes, st *State, onlyOuter bool) {
	for _, obj := range sortedObjs(w.vars) {
		if v, ok := st.env[obj]; ok {
			nv := freshValue(obj.Name(), v.T)
			st.env[obj] = nv
			st.assumeValid(nv)
		}
	}
	for _, g := range sortedKeys(w.globs) {
		t := w.globs[g]
		nv := freshValue("G|"+g, t)
		st.glob[g] = nv
		st.assumeValid(nv)
	}
	for _, f := range sortedKeys(w.fams) {
		st.havocFamily(f)
	}
	for _, name := range sortedKeys(w.calls) {
		// this ghost call counter may have advanced
		cv := freshVar("ghost|calls:"+name, sortMath)
		st.ghost["calls:"+name] = scalarV(mathintType, cv)
		st.assume(mkCmp("le", mkInt(sortMath, 0), cv))
	}
	for _, g := range sortedKeys(w.ghosts) {
		nv := freshValue("ghost|"+g, types.NewSlice(ghostByteT))
		st.assumeValid(nv)
		st.ghost[g] = nv
	}
	for _, k := range sortedKeys(w.bools) {
		st.ghost[k] = boolV(freshVar("ghost|"+k, sortBool))
	}
	if w.aeadOpen {
		havocAEADTrace(st, "open")
	}
	if w.aeadSeal {
		havocAEADTrace(st, "seal")
	}
	for _, k := range sortedKeys(w.ints) {
		nv := freshValue("ghost|"+k, types.Typ[types.Int])
		st.assumeValid(nv)
		st.ghost[k] = nv
	}
	for _, k := range sortedKeys(w.binReads) {
		t := w.binReads[k]
		nv := freshValue("ghost|binread", t)
		st.assumeValid(nv)
		st.ghost["bin.last:"+k] = nv
	}
	if len(w.fams) > 0 {
		// allocation may have happened
		na := freshVar("alloc", sortMath)
		st.assume(mkCmp("le", st.alloc, na))
		st.alloc = na
	}
}

func (ex *Exec) loopClauses(ord string) (invs []*Clause, dec *Clause) {
	f := ex.frame()
	if f.fn == nil || f.fn.Con == nil || f.lit {
		return nil, nil
	}
	for _, c := range f.fn.Con.Loops[ord] {
		if c.Kind == "invariant" {
			invs = append(invs, c)
		} else if c.Kind == "decreases" {
			dec = c
		}
	}
	return
}

func (fi *FuncInfo) iterEnsures(ord string, f *Frame) []*Clause {
	if fi == nil || fi.Con == nil || f.lit {
		return nil
	}
	var out []*Clause
	for _, c := range fi.Con.Loops[ord] {
		if c.Kind == "iterensures" {
			out = append(out, c)
		}
	}
	return out
}

func (ex *Exec) nextLoopOrd() string {
	f := ex.frame()
	if len(f.loopOrd) == 0 {
		f.loopOrd = []int{0}
	}
	parts := make([]string, len(f.loopOrd))
	for i, n := range f.loopOrd {
		parts[i] = fmt.Sprint(n)
	}
	return strings.Join(parts, ".")
}

// runLoop: generic cut-point treatment.
//
//	cond(st) returns the continuation condition (nil = true), evaluated in the given state
//	body(st) executes one iteration including the post statement handling via post(st)
func (ex *Exec) runLoop(n ast.Node, label string, st *State, w *writes, cond func(*State) *Term, body func(*State), post func(*State), extraInv func(*State) []*Term) {
	f := ex.frame()
	ord := ex.nextLoopOrd()
	invs, dec := ex.loopClauses(ord)
	site := "loop" + ord
	if ex.unroll > 0 && len(invs) == 0 && f.fn == ex.top && false {
		_ = site
	}
	entrySt := st.clone()
	evalInvs := func(s *State) []*Term {
		saved := ex.loopEntry
		ex.loopEntry = entrySt
		defer func() { ex.loopEntry = saved }()
		var out []*Term
		for _, c := range invs {
			out = append(out, ex.evalClause(c, s, f.oldSt, nil))
		}
		return out
	}
	// 1. invariants hold on entry
	for i, g := range evalInvs(st) {
		ex.check(st, g, "loop-init", n, fmt.Sprintf("%s:inv%d", site, i))
	}
	var entryExtra []*Term
	if extraInv != nil {
		entryExtra = extraInv(st)
		for _, g := range entryExtra {
			if !st.dead {
				st.assume(g)
			}
		}
	}
	// 1b. the variant decreases in the very first iteration (a refutation of this obligation is a real input)
	if dec != nil && ex.mute == 0 {
		ex.mute++
		e0 := st.clone()
		var c0 *Term
		if cond != nil {
			c0 = cond(e0)
		}
		if c0 != nil {
			e0.assume(c0)
		}
		if !e0.dead {
			lc0 := &loopCtx{label: label}
			f.loops = append(f.loops, lc0)
			f.loopOrd = append(f.loopOrd, 0)
			nret := len(f.returns)
			v00 := ex.evalClauseVal(dec, e0, f.oldSt).scalar()
			body(e0)
			for _, e := range append([]*State{e0}, lc0.continues...) {
				if e == nil || e.dead {
					continue
				}
				if post != nil {
					post(e)
				}
				if e.dead {
					continue
				}
				v1 := ex.evalClauseVal(dec, e, f.oldSt).scalar()
				ex.check(e, mkAnd(mkCmp("lt", v1, v00), mkCmp("le", mkInt(v00.Sort, 0), v00)), "variant-first", n, site+":decreases-first-iteration")
			}
			f.returns = f.returns[:nret]
			f.loopOrd = f.loopOrd[:len(f.loopOrd)-1]
			f.loops = f.loops[:len(f.loops)-1]
		}
		ex.mute--
	}
	// 2. havoc, assume invariants: arbitrary iteration
	ex.havocWrites(w, st, false)
	ex.assuming++
	for _, g := range evalInvs(st) {
		st.assume(g)
	}
	ex.assuming--
	if extraInv != nil {
		for _, g := range extraInv(st) {
			st.assume(g)
		}
	}
	// vacuity guard: the invariants assumed at the loop head must be satisfiable together with the path
	if ex.spec == 0 && ex.mute == 0 && len(invs) > 0 {
		ex.siteSeen["cover@"+site]++
		name := fmt.Sprintf("%s/cover:%s-head", ex.top.Short, site)
		if n := ex.siteSeen["cover@"+site]; n > 1 {
			name += fmt.Sprintf("#%d", n)
		}
		ex.obls = append(ex.obls, &Obligation{Name: name, Kind: "cover", Func: ex.top.Short, Goal: tFalse, Facts: append([]*Term(nil), st.pc...), Cover: true, Pos: ex.pos(n)})
	}
	// 3. one iteration (the condition is evaluated once, at the loop head)
	var c *Term
	if cond != nil {
		c = cond(st)
	}
	base := len(st.pc)
	head := st.clone()
	headSnap := st.clone()
	lc := &loopCtx{label: label}
	f.loops = append(f.loops, lc)
	f.loopOrd = append(f.loopOrd, 0)
	it := head.clone()
	exit := head
	if c != nil {
		it.decide(c)
		exit.decide(mkNot(c))
	} else {
		exit.dead = true
	}
	var v0 *Term
	if dec != nil && !it.dead {
		v0 = ex.evalClauseVal(dec, it, f.oldSt).scalar()
	}
	body(it)
	ends := append([]*State{it}, lc.continues...)
	for _, e := range ends {
		if e == nil || e.dead {
			continue
		}
		if post != nil {
			post(e)
		}
		if e.dead {
			continue
		}
		for i, g := range evalInvs(e) {
			ex.check(e, g, "loop-preserve", n, fmt.Sprintf("%s:inv%d", site, i))
		}
		for i, c := range f.fn.iterEnsures(ord, f) {
			savedH, savedE := ex.loopHead, ex.loopEntry
			ex.loopHead, ex.loopEntry = headSnap, entrySt
			g := ex.evalClause(c, e, f.oldSt, nil)
			ex.loopHead, ex.loopEntry = savedH, savedE
			lbl := c.Label
			if lbl == "" {
				lbl = fmt.Sprint(i)
			}
			ex.check(e, g, "iteration", n, fmt.Sprintf("%s:%s", site, lbl))
		}
		if dec != nil {
			v1 := ex.evalClauseVal(dec, e, f.oldSt).scalar()
			z := mkInt(v0.Sort, 0)
			ex.check(e, mkAnd(mkCmp("lt", v1, v0), mkCmp("le", z, v0)), "variant", n, site+":decreases")
		}
		e.dead = true
	}
	f.loopOrd = f.loopOrd[:len(f.loopOrd)-1]
	f.loopOrd[len(f.loopOrd)-1]++
	f.loops = f.loops[:len(f.loops)-1]
	// 4. continue after the loop
	outs := append([]*State{exit}, lc.breaks...)
	st.become(mergeStates(base, outs))
}

func (ex *Exec) execFor(s *ast.ForStmt, st *State, label string) {
	if s.Init != nil {
		ex.execStmt(s.Init, st)
	}
	w := ex.scanWrites(s.Body, ex.info())
	if s.Post != nil {
		ex.scanInto(s.Post, ex.info(), w)
	}
	if s.Cond != nil {
		ex.scanInto(s.Cond, ex.info(), w)
	}
	var cond func(*State) *Term
	if s.Cond != nil {
		cond = func(x *State) *Term { return ex.eval(s.Cond, x).scalar() }
	}
	var post func(*State)
	if s.Post != nil {
		post = func(x *State) { ex.execStmt(s.Post, x) }
	}
	ex.runLoop(s, label, st, w, cond, func(x *State) { ex.execBlock(s.Body.List, x) }, post, ex.counterInvariant(s, st, w))
}

func (ex *Exec) execRange(s *ast.RangeStmt, st *State, label string) {
	info := ex.info()
	xt := info.TypeOf(s.X)
	w := ex.scanWrites(s.Body, info)
	var keyObj, valObj types.Object
	bindLV := func(e ast.Expr) types.Object {
		if e == nil {
			return nil
		}
		id, ok := e.(*ast.Ident)
		if !ok {
			unsupp("range with non-identifier target")
		}
		if id.Name == "_" {
			return nil
		}
		if o := info.Defs[id]; o != nil {
			return o
		}
		o := info.Uses[id]
		w.vars[o] = true
		return o
	}
	keyObj = bindLV(s.Key)
	valObj = bindLV(s.Value)
	idx := types.NewVar(s.Pos(), ex.frame().pkg, "range!i", types.Typ[types.Int])
	w.vars[idx] = true
	ex.rangeIdx = append(ex.rangeIdx, idx)
	defer func() { ex.rangeIdx = ex.rangeIdx[:len(ex.rangeIdx)-1] }()
	if keyObj != nil {
		w.vars[keyObj] = true
	}
	if valObj != nil {
		w.vars[valObj] = true
	}
	zero := mkInt(sortInt, 0)
	switch u := xt.Underlying().(type) {
	case *types.Basic:
		if u.Info()&types.IsInteger == 0 {
			unsupp("range over %s", xt)
		}
		nv := ex.convertTo(ex.eval(s.X, st), types.Typ[types.Int], st)
		n := nv.scalar()
		kt := types.Type(types.Typ[types.Int])
		if keyObj != nil {
			kt = keyObj.Type()
		}
		st.env[idx] = scalarV(types.Typ[types.Int], zero)
		if keyObj != nil {
			st.env[keyObj] = zeroValue(kt)
		}
		ex.runLoop(s, label, st, w,
			func(x *State) *Term { return mkCmp("lt", x.env[idx].scalar(), n) },
			func(x *State) {
				if keyObj != nil {
					x.env[keyObj] = scalarV(kt, mkConv(x.env[idx].scalar(), leavesOf(kt)[0].Sort))
				}
				ex.execBlock(s.Body.List, x)
			},
			func(x *State) {
				x.env[idx] = scalarV(types.Typ[types.Int], mkArith("add", x.env[idx].scalar(), mkInt(sortInt, 1)))
			},
			func(x *State) []*Term {
				i := x.env[idx].scalar()
				return []*Term{mkCmp("le", zero, i), mkCmp("le", i, mkIte(mkCmp("lt", n, zero), zero, n))}
			})
	case *types.Slice:
		sv := ex.eval(s.X, st)
		n := sv.L[".len"]
		st.env[idx] = scalarV(types.Typ[types.Int], zero)
		if keyObj != nil {
			st.env[keyObj] = zeroValue(keyObj.Type())
		}
		if valObj != nil {
			st.env[valObj] = zeroValue(valObj.Type())
		}
		ex.runLoop(s, label, st, w,
			func(x *State) *Term { return mkCmp("lt", x.env[idx].scalar(), n) },
			func(x *State) {
				i := x.env[idx].scalar()
				if keyObj != nil {
					x.env[keyObj] = scalarV(keyObj.Type(), i)
				}
				if valObj != nil {
					x.env[valObj] = x.readElem(u.Elem(), sv.L[".ref"], idxAdd(sv.L[".off"], i))
				}
				ex.execBlock(s.Body.List, x)
			},
			func(x *State) {
				x.env[idx] = scalarV(types.Typ[types.Int], mkArith("add", x.env[idx].scalar(), mkInt(sortInt, 1)))
			},
			func(x *State) []*Term {
				i := x.env[idx].scalar()
				fs := []*Term{mkCmp("le", zero, i), mkCmp("le", i, n)}
				if keyObj != nil {
					// after at least one iteration key == i-1; expose the simple relation  key < n  lazily via invariants only
				}
				return fs
			})
	case *types.Map:
		mv := ex.eval(s.X, st)
		ref := mv.scalar()
		m := u
		_, ks := mapParts(xt)
		ex.note("range over map: iteration order arbitrary; each iteration visits some key present at that moment (visited-set bookkeeping only through invariants)")
		// ghost visited set
		vis := "visited!" + fmt.Sprint(s.Pos())
		st.ghost[vis] = Value{T: nil, L: map[string]*Term{"": mkConstArr(arraySort(ks, sortBool), tFalse)}}
		ex.frame().entry["visited"] = st.ghost[vis]
		more := func(x *State) *Term { return freshVar("rangemore", sortBool) }
		w2 := w
		ex.runLoopGhost(s, label, st, w2, vis, more, func(x *State) {
			k := freshVar("rangekey", ks)
			x.assume(x.mapHas(xt, ref, k))
			x.assume(mkNot(mkSelect(x.ghost[vis].scalar(), k)))
			x.ghost[vis] = Value{L: map[string]*Term{"": mkStore(x.ghost[vis].scalar(), k, tTrue)}}
			if keyObj != nil {
				x.env[keyObj] = scalarV(keyObj.Type(), k)
			}
			if valObj != nil {
				x.env[valObj] = x.mapRead(xt, ref, k)
				x.assumeValid(x.env[valObj])
			}
			_ = m
			ex.execBlock(s.Body.List, x)
		}, func(x *State) *Term {
			// on exit every key still present has been visited
			q := freshVar("k", ks)
			return mkQuant("forall", []*Term{q}, mkImplies(x.mapHas(xt, ref, q), mkSelect(x.ghost[vis].scalar(), q)))
		})
	case *types.Array:
		unsupp("range over array")
	default:
		unsupp("range over %s", xt)
	}
}

// runLoopGhost: map-range loop: nondeterministic continuation, ghost visited set, exit fact.
func (ex *Exec) runLoopGhost(n ast.Node, label string, st *State, w *writes, vis string, more func(*State) *Term, body func(*State), exitFact func(*State) *Term) {
	f := ex.frame()
	ord := ex.nextLoopOrd()
	invs, _ := ex.loopClauses(ord)
	site := "loop" + ord
	bindVis := func(s *State) { f.entry["visited"] = s.ghost[vis] }
	entrySt := st.clone()
	evalInvs := func(s *State) []*Term {
		bindVis(s)
		saved := ex.loopEntry
		ex.loopEntry = entrySt
		defer func() { ex.loopEntry = saved }()
		var out []*Term
		for _, c := range invs {
			out = append(out, ex.evalClause(c, s, f.oldSt, nil))
		}
		return out
	}
	for i, g := range evalInvs(st) {
		ex.check(st, g, "loop-init", n, fmt.Sprintf("%s:inv%d", site, i))
	}
	ex.havocWrites(w, st, false)
	hv := freshVar("visited", st.ghost[vis].scalar().Sort)
	st.ghost[vis] = Value{L: map[string]*Term{"": hv}}
	ex.assuming++
	for _, g := range evalInvs(st) {
		st.assume(g)
	}
	ex.assuming--
	base := len(st.pc)
	head := st.clone()
	lc := &loopCtx{label: label}
	f.loops = append(f.loops, lc)
	f.loopOrd = append(f.loopOrd, 0)
	it := head.clone()
	body(it)
	ends := append([]*State{it}, lc.continues...)
	for _, e := range ends {
		if e == nil || e.dead {
			continue
		}
		for i, g := range evalInvs(e) {
			ex.check(e, g, "loop-preserve", n, fmt.Sprintf("%s:inv%d", site, i))
		}
		e.dead = true
	}
	f.loopOrd = f.loopOrd[:len(f.loopOrd)-1]
	f.loopOrd[len(f.loopOrd)-1]++
	f.loops = f.loops[:len(f.loops)-1]
	exit := head
	exit.assume(exitFact(exit))
	outs := append([]*State{exit}, lc.breaks...)
	st.become(mergeStates(base, outs))
}

// ---------------------------------------------------------------------------------
// syntactic write sets (for loop havoc)

func (ex *Exec) scanWrites(n ast.Node, info *types.Info) *writes {
	w := newWrites()
	ex.scanInto(n, info, w)
	if w.layerParser && ex.top != nil && ex.top.Decl.Body != nil {
		// the layers registered with the parser (and the list of decoded types) are written by DecodeLayers
		ast.Inspect(ex.top.Decl.Body, func(x ast.Node) bool {
			call, ok := x.(*ast.CallExpr)
			if !ok {
				return true
			}
			if se, ok := ast.Unparen(call.Fun).(*ast.SelectorExpr); ok && (se.Sel.Name == "NewDecodingLayerParser" || se.Sel.Name == "DecodeLayers") {
				for _, a := range call.Args {
					if u, ok := ast.Unparen(a).(*ast.UnaryExpr); ok && u.Op == token.AND {
						ex.scanLHS(u.X, ex.top.Pkg.TypesInfo, w)
						if t := ex.top.Pkg.TypesInfo.TypeOf(u.X); t != nil && se.Sel.Name == "NewDecodingLayerParser" {
							w.binReads[typeKey(t)] = t
						}
					}
				}
			}
			return true
		})
	}
	return w
}

func (ex *Exec) scanInto(n ast.Node, info *types.Info, w *writes) {
	ex.scanDepth(n, info, w, 0)
}

func (ex *Exec) scanDepth(n ast.Node, info *types.Info, w *writes, depth int) {
	if n == nil {
		return
	}
	lhs := func(e ast.Expr) {
		ex.scanLHS(e, info, w)
	}
	ast.Inspect(n, func(x ast.Node) bool {
		switch x := x.(type) {
		case *ast.AssignStmt:
			for _, l := range x.Lhs {
				lhs(l)
			}
		case *ast.IncDecStmt:
			lhs(x.X)
		case *ast.RangeStmt:
			if x.Tok == token.ASSIGN {
				if x.Key != nil {
					lhs(x.Key)
				}
				if x.Value != nil {
					lhs(x.Value)
				}
			}
		case *ast.UnaryExpr:
			if x.Op == token.AND {
				// address taken inside: conservatively treat the target as written
				lhs(x.X)
			}
		case *ast.CallExpr:
			ex.scanCall(x, info, w, depth)
		}
		return true
	})
}

func (ex *Exec) scanLHS(e ast.Expr, info *types.Info, w *writes) {
	switch e := e.(type) {
	case *ast.Ident:
		if e.Name == "_" {
			return
		}
		obj := info.Uses[e]
		if obj == nil {
			obj = info.Defs[e]
		}
		if v, ok := obj.(*types.Var); ok {
			if v.Parent() != nil && v.Pkg() != nil && v.Parent() == v.Pkg().Scope() {
				w.globs[v.Pkg().Path()+"."+v.Name()] = v.Type()
			} else {
				w.vars[obj] = true
			}
		}
	case *ast.ParenExpr:
		ex.scanLHS(e.X, info, w)
	case *ast.StarExpr:
		t := info.TypeOf(e.X)
		if p, ok := t.Underlying().(*types.Pointer); ok {
			w.fams["O|"+typeKey(p.Elem())+"|"] = true
		}
		// static pointers may target locals
		ex.scanPtrTargets(e.X, info, w)
	case *ast.SelectorExpr:
		if sel, ok := info.Selections[e]; ok {
			bt := info.TypeOf(e.X)
			ex.famsForSelection(bt, sel, w)
			if _, isPtr := bt.Underlying().(*types.Pointer); !isPtr {
				ex.scanLHS(e.X, info, w)
			} else {
				ex.scanPtrTargets(e.X, info, w)
			}
		} else {
			// qualified global
			if v, ok := info.Uses[e.Sel].(*types.Var); ok && v.Pkg() != nil {
				w.globs[v.Pkg().Path()+"."+v.Name()] = v.Type()
			}
		}
	case *ast.IndexExpr:
		t := info.TypeOf(e.X)
		switch u := t.Underlying().(type) {
		case *types.Slice:
			w.fams["R|"+typeKey(u.Elem())+"|"] = true
		case *types.Map:
			w.fams["M|"+typeKey(t)+"|"] = true
		case *types.Array:
			ex.scanLHS(e.X, info, w)
		case *types.Pointer:
			w.fams["O|"+typeKey(u.Elem())+"|"] = true
		}
	}
}

// pointer-typed locals that hold static interior pointers: writing through them may hit the pointee local.
func (ex *Exec) scanPtrTargets(e ast.Expr, info *types.Info, w *writes) {
	// conservative: nothing to do syntactically; static pointers to locals are created only by &x in the same function,
	// and scanInto treats &x as a write to x.
}

// famsForSelection adds the heap family written by an assignment through the selection: the leaves of the
// root object type under the selected field path (finer than the whole type: other fields keep their values).
func (ex *Exec) famsForSelection(bt types.Type, sel *types.Selection, w *writes) {
	t := bt
	root := types.Type(nil)
	path := ""
	for _, i := range sel.Index() {
		if p, ok := t.Underlying().(*types.Pointer); ok {
			root = p.Elem()
			path = ""
			t = p.Elem()
		}
		st, ok := t.Underlying().(*types.Struct)
		if !ok {
			return
		}
		path += "." + st.Field(i).Name()
		t = st.Field(i).Type()
	}
	if root != nil {
		w.fams["O|"+typeKey(root)+"|"+path] = true
	}
}

func (ex *Exec) scanCall(call *ast.CallExpr, info *types.Info, w *writes, depth int) {
	if tv, ok := info.Types[call.Fun]; ok && tv.IsType() {
		return
	}
	var fn *types.Func
	switch f := call.Fun.(type) {
	case *ast.Ident:
		if b, ok := info.Uses[f].(*types.Builtin); ok {
			switch b.Name() {
			case "append":
				if len(call.Args) > 0 {
					if s, ok := info.TypeOf(call.Args[0]).Underlying().(*types.Slice); ok {
						w.fams["R|"+typeKey(s.Elem())+"|"] = true
					}
				}
			case "copy":
				if s, ok := info.TypeOf(call.Args[0]).Underlying().(*types.Slice); ok {
					w.fams["R|"+typeKey(s.Elem())+"|"] = true
				}
			case "delete":
				w.fams["M|"+typeKey(info.TypeOf(call.Args[0]))+"|"] = true
			case "make", "new":
			}
			return
		}
		fn, _ = info.Uses[f].(*types.Func)
	case *ast.SelectorExpr:
		fn, _ = info.Uses[f.Sel].(*types.Func)
		if sel, ok := info.Selections[f]; ok && fn != nil {
			// pointer-receiver method on an addressable local: the receiver may be written
			if sig, ok := fn.Type().(*types.Signature); ok && sig.Recv() != nil {
				if _, isPtr := sig.Recv().Type().Underlying().(*types.Pointer); isPtr {
					if _, recvIsPtr := info.TypeOf(f.X).Underlying().(*types.Pointer); !recvIsPtr {
						ex.scanLHS(f.X, info, w)
					}
				}
			}
			_ = sel
		}
	case *ast.FuncLit:
		return // body is scanned by ast.Inspect
	}
	if fn == nil {
		if id, ok := call.Fun.(*ast.Ident); ok && len(ex.frames) > 0 {
			if f := ex.frame(); f.fn != nil && f.fn.Con != nil && len(f.fn.Con.Callbacks[id.Name]) > 0 {
				for _, c := range f.fn.Con.Callbacks[id.Name] {
					if c.Kind == "cb-modifies" {
						ex.famsForModifies(f.fn, c, w)
					}
				}
				return
			}
		}
		// call through a function value: unknown effects on the heap reachable from arguments
		ex.scanArgsHavoc(call, info, w)
		return
	}
	key := funcKey(fn)
	if cn := counterNameOf(fn); countedCalls[cn] {
		w.calls[cn] = true
	}
	switch fn.FullName() {
	case "(crypto/cipher.AEAD).Open":
		w.aeadOpen = true
	case "(crypto/cipher.AEAD).Seal":
		w.aeadSeal = true
	case "(*net.UDPConn).ReadMsgUDPAddrPort":
		w.ghosts["net.lastpkt"] = true
		w.bools["net.lastok"] = true
	case "(*net.UDPConn).WriteToUDPAddrPort":
		w.ghosts["net.lastsent"] = true
	}
	if ifi := ex.vc.ifaceFuncs[key]; ifi != nil {
		w.calls[ifaceCounterName(ifi)] = true
		for _, m := range ifi.Con.Modifies {
			ex.famsForModifies(ifi, m, w)
		}
		return
	}
	if fi := ex.vc.funcs[key]; fi != nil {
		if fi.Con != nil && !fi.Con.Inline {
			for _, m := range fi.Con.Modifies {
				ex.famsForModifies(fi, m, w)
			}
			if fi.Con.opens {
				w.aeadOpen = true
			}
			if fi.Con.seals {
				w.aeadSeal = true
			}
			return
		}
		if depth < 4 && fi.Decl.Body != nil {
			sub := newWrites()
			ex.scanDepth(fi.Decl.Body, fi.Pkg.TypesInfo, sub, depth+1)
			for f := range sub.fams {
				w.fams[f] = true
			}
			for g, t := range sub.globs {
				w.globs[g] = t
			}
			for c := range sub.calls {
				w.calls[c] = true
			}
			for g := range sub.ghosts {
				w.ghosts[g] = true
			}
			for k, t := range sub.binReads {
				w.binReads[k] = t
			}
			for k := range sub.ints {
				w.ints[k] = true
			}
			for k := range sub.bools {
				w.bools[k] = true
			}
			if sub.layerParser {
				w.layerParser = true
			}
			if sub.aeadOpen {
				w.aeadOpen = true
			}
			if sub.aeadSeal {
				w.aeadSeal = true
			}
			// callee locals are irrelevant; pointer-receiver/pointer params targeting caller locals:
			for _, a := range call.Args {
				if u, ok := a.(*ast.UnaryExpr); ok && u.Op == token.AND {
					ex.scanLHS(u.X, info, w)
				}
			}
			return
		}
	}
	if m := lookupModel(fn); m != nil {
		if m.writes != nil {
			m.writes(call, info, w)
		}
		return
	}
	if isPureExternal(fn) {
		return
	}
	ex.scanArgsHavoc(call, info, w)
}

func (ex *Exec) scanArgsHavoc(call *ast.CallExpr, info *types.Info, w *writes) {
	args := append([]ast.Expr{}, call.Args...)
	if sel, ok := call.Fun.(*ast.SelectorExpr); ok {
		if _, isSel := info.Selections[sel]; isSel {
			args = append(args, sel.X)
		}
	}
	for _, a := range args {
		t := info.TypeOf(a)
		if t == nil {
			continue
		}
		switch u := t.Underlying().(type) {
		case *types.Pointer:
			w.fams["O|"+typeKey(u.Elem())+"|"] = true
			if ue, ok := a.(*ast.UnaryExpr); ok && ue.Op == token.AND {
				ex.scanLHS(ue.X, info, w)
			}
		case *types.Slice:
			w.fams["R|"+typeKey(u.Elem())+"|"] = true
		case *types.Map:
			w.fams["M|"+typeKey(t)+"|"] = true
		}
	}
}

func (ex *Exec) famsForModifies(fi *FuncInfo, m *Clause, w *writes) {
	ex.vc.compileClause(fi, m)
	for _, e := range m.Exprs {
		ex.famForModExpr(e, m.Info, w)
	}
}

func (ex *Exec) famForModExpr(e ast.Expr, info *types.Info, w *writes) {
	switch e := e.(type) {
	case *ast.ParenExpr:
		ex.famForModExpr(e.X, info, w)
	case *ast.StarExpr:
		if p, ok := info.TypeOf(e.X).Underlying().(*types.Pointer); ok {
			w.fams["O|"+typeKey(p.Elem())+"|"] = true
		}
	case *ast.SelectorExpr:
		if sel, ok := info.Selections[e]; ok {
			ex.famsForSelection(info.TypeOf(e.X), sel, w)
			if _, isMap := info.TypeOf(e).Underlying().(*types.Map); isMap {
				w.fams["M|"+typeKey(info.TypeOf(e))+"|"] = true
			}
		} else if v, ok := info.Uses[e.Sel].(*types.Var); ok && v.Pkg() != nil {
			w.globs[v.Pkg().Path()+"."+v.Name()] = v.Type()
		}
	case *ast.SliceExpr:
		if s, ok := info.TypeOf(e.X).Underlying().(*types.Slice); ok {
			w.fams["R|"+typeKey(s.Elem())+"|"] = true
		}
	case *ast.IndexExpr:
		t := info.TypeOf(e.X)
		switch u := t.Underlying().(type) {
		case *types.Slice:
			w.fams["R|"+typeKey(u.Elem())+"|"] = true
		case *types.Map:
			w.fams["M|"+typeKey(t)+"|"] = true
		}
	case *ast.Ident:
		if v, ok := info.Uses[e].(*types.Var); ok && v.Pkg() != nil && v.Parent() == v.Pkg().Scope() {
			w.globs[v.Pkg().Path()+"."+v.Name()] = v.Type()
		} else if v != nil {
			// a map-typed parameter: modifies m means the map contents
			if _, ok := v.Type().Underlying().(*types.Map); ok {
				w.fams["M|"+typeKey(v.Type())+"|"] = true
			}
		}
	}
}

// counterInvariant infers  A <= i && (A <= B ==> i <= B)  for the idiom  for i := A; i != B (or i < B, i <= B-1); i++ { body not assigning i or B }.
func (ex *Exec) counterInvariant(s *ast.ForStmt, st *State, w *writes) func(*State) []*Term {
	info := ex.info()
	as, ok := s.Init.(*ast.AssignStmt)
	if !ok || as.Tok != token.DEFINE || len(as.Lhs) != 1 || len(as.Rhs) != 1 {
		return nil
	}
	id, ok := as.Lhs[0].(*ast.Ident)
	if !ok {
		return nil
	}
	obj := info.Defs[id]
	if obj == nil {
		return nil
	}
	inc, ok := s.Post.(*ast.IncDecStmt)
	if !ok || inc.Tok != token.INC {
		return nil
	}
	if pid, ok := inc.X.(*ast.Ident); !ok || info.Uses[pid] != obj {
		return nil
	}
	be, ok := s.Cond.(*ast.BinaryExpr)
	if !ok || (be.Op != token.NEQ && be.Op != token.LSS) {
		return nil
	}
	if cid, ok := be.X.(*ast.Ident); !ok || info.Uses[cid] != obj {
		return nil
	}
	// the counter must not be assigned in the body, the bound must be loop-invariant
	bw := ex.scanWrites(s.Body, info)
	if bw.vars[obj] {
		return nil
	}
	boundOK := true
	ast.Inspect(be.Y, func(n ast.Node) bool {
		switch x := n.(type) {
		case *ast.Ident:
			if o := info.Uses[x]; o != nil {
				if bw.vars[o] {
					boundOK = false
				}
				if v, ok := o.(*types.Var); ok && isPkgLevel(v) {
					boundOK = false
				}
			}
		case *ast.CallExpr:
			if fid, ok := x.Fun.(*ast.Ident); !ok || (fid.Name != "len" && fid.Name != "cap") {
				boundOK = false
			}
		case *ast.StarExpr, *ast.IndexExpr:
			boundOK = false
		case *ast.SelectorExpr:
			boundOK = false
		}
		return true
	})
	if !boundOK {
		return nil
	}
	cur, ok := st.env[obj]
	if !ok || cur.scalar().Sort.K != SGoInt {
		return nil
	}
	a := cur.scalar() // value of A (already assigned by Init)
	sub := st.clone()
	ex.spec++
	bv := ex.eval(be.Y, sub)
	ex.spec--
	b := ex.convertTo(bv, cur.T, sub).scalar()
	if !sameSort(a.Sort, b.Sort) {
		return nil
	}
	return func(x *State) []*Term {
		i := x.env[obj].scalar()
		return []*Term{mkImplies(mkCmp("le", a, b), mkAnd(mkCmp("le", a, i), mkCmp("le", i, b)))}
	}
}

// definitional equations of float-valued locals: v == <float expression>. They are ordinary facts, but the
// portfolio may drop them (an opaque v is often all a proof needs, and float multipliers are expensive to bit-blast).
var defFacts = map[*Term]bool{}
var lemmaFacts = map[*Term]bool{}

func (ex *Exec) nameFloat(v Value, name string, st *State) Value {
	if ex.spec > 0 || len(v.L) != 1 {
		return v
	}
	t, ok := v.L[""]
	if !ok || t.Sort.K != SFP || t.Op == "var" || t.Op == "const" {
		return v
	}
	nv := freshVar(name, sortFP)
	eq := mk("=", sortBool, nv, t)
	defFacts[eq] = true
	st.assume(eq)
	return scalarV(v.T, nv)
}

// simplifyGoal uses the unit literals of the path condition, and the antecedents of an implication goal, to resolve
// conditions inside the goal (e.g. ite terms produced by merges).
func (ex *Exec) simplifyGoal(st *State, goal *Term) *Term {
	lits := map[*Term]bool{}
	unitLits(st.pc, lits)
	g := simplifyUnder(goal, lits)
	return simplifyImpl(g)
}

func simplifyImpl(g *Term) *Term {
	if g.Op == "=>" {
		l2 := map[*Term]bool{}
		unitLits([]*Term{g.Args[0]}, l2)
		c := simplifyImpl(simplifyUnder(g.Args[1], l2))
		return mkImplies(g.Args[0], c)
	}
	if g.Op == "and" {
		args := make([]*Term, len(g.Args))
		for i, a := range g.Args {
			args[i] = simplifyImpl(a)
		}
		return mkAnd(args...)
	}
	return g
}

// The ghost trace of the last AEAD operation on a path: a success flag (opened()/sealed()), the cipher handle (its key)
// and the byte strings involved. havocAEADTrace replaces it by an arbitrary one (modular calls with an "aead" clause,
// loop heads whose body may perform the operation).
var aeadHandleT = types.NewPointer(types.Typ[types.Uint8])

func havocAEADTrace(st *State, op string) {
	bs := types.NewSlice(types.Typ[types.Uint8])
	st.ghost["aead."+op+".ok"] = boolV(freshVar("aead|"+op+"|ok", sortBool))
	st.ghost["aead."+op+".aead"] = scalarV(aeadHandleT, freshVar("aead", sortRef))
	keys := []string{"ad", "nonce", "ct"}
	if op == "seal" {
		keys = []string{"ad", "pt"}
	}
	for _, k := range keys {
		st.ghost["aead."+op+"."+k] = freshValue("aead."+op+"."+k, bs)
	}
}

// Deterministic iteration: fresh names are numbered in creation order, so the order in which havocked variables are
// visited decides the text of the SMT scripts - and with it how long the solvers take. Maps are visited in key order.
func sortedObjs(m map[types.Object]bool) []types.Object {
	os := make([]types.Object, 0, len(m))
	for o := range m {
		os = append(os, o)
	}
	sort.Slice(os, func(i, j int) bool {
		if os[i].Pos() != os[j].Pos() {
			return os[i].Pos() < os[j].Pos()
		}
		return os[i].Name() < os[j].Name()
	})
	return os
}
