package main

// Symbolic values: every Go value is flattened into scalar "leaves" (path -> term).

import (
	"fmt"
	"go/ast"
	"go/types"
	"regexp"
	"sort"
	"strings"
)

type unsupported struct{ msg string }

func unsupp(format string, a ...any) {
	panic(unsupported{fmt.Sprintf(format, a...)})
}

type Leaf struct {
	Path string
	Sort *Sort
}

var reByte = regexp.MustCompile(`\bbyte\b`)
var reRune = regexp.MustCompile(`\brune\b`)
var typeKeyCache = map[types.Type]string{}

// typeKey is the canonical name of a type (byte/uint8 and rune/int32 are the same type).
func typeKey(t types.Type) string {
	if k, ok := typeKeyCache[t]; ok {
		return k
	}
	s := types.TypeString(t, func(p *types.Package) string { return p.Path() })
	if strings.Contains(s, "byte") {
		s = reByte.ReplaceAllString(s, "uint8")
	}
	if strings.Contains(s, "rune") {
		s = reRune.ReplaceAllString(s, "int32")
	}
	typeKeyCache[t] = s
	return s
}

var leafCache = map[string][]Leaf{}

func isNamed(t types.Type, pkg, name string) bool {
	n, ok := types.Unalias(t).(*types.Named)
	if !ok {
		return false
	}
	o := n.Obj()
	return o.Pkg() != nil && o.Pkg().Path() == pkg && o.Name() == name
}

func isTime(t types.Type) bool { return isNamed(t, "time", "Time") }

func basicSort(b *types.Basic) *Sort {
	switch b.Kind() {
	case types.Bool, types.UntypedBool:
		return sortBool
	case types.Int, types.Int64:
		return goInt(64, true)
	case types.Int8:
		return goInt(8, true)
	case types.Int16:
		return goInt(16, true)
	case types.Int32, types.UntypedRune:
		return goInt(32, true)
	case types.Uint, types.Uint64, types.Uintptr:
		return goInt(64, false)
	case types.Uint8:
		return goInt(8, false)
	case types.Uint16:
		return goInt(16, false)
	case types.Uint32:
		return goInt(32, false)
	case types.Float64, types.Float32, types.UntypedFloat:
		return sortFP
	case types.String, types.UntypedString:
		return sortStr
	case types.UnsafePointer:
		return sortRef
	case types.UntypedInt:
		return goInt(64, true)
	case types.UntypedNil:
		return sortRef
	}
	unsupp("basic type %s", b)
	return nil
}

var mathintType types.Type // set by universe setup

func leavesOf(t types.Type) []Leaf {
	k := typeKey(t)
	if l, ok := leafCache[k]; ok {
		return l
	}
	leafCache[k] = nil // recursion guard
	var out []Leaf
	if mathintType != nil && types.Identical(t, mathintType) {
		out = []Leaf{{"", sortMath}}
		leafCache[k] = out
		return out
	}
	if isTime(t) {
		out = []Leaf{{".sec", goInt(64, true)}, {".nsec", goInt(64, true)}}
		leafCache[k] = out
		return out
	}
	if isNamed(t, "sync", "Mutex") || isNamed(t, "sync", "RWMutex") {
		out = []Leaf{{".held", sortBool}}
		leafCache[k] = out
		return out
	}
	switch u := t.Underlying().(type) {
	case *types.Basic:
		out = []Leaf{{"", basicSort(u)}}
	case *types.Pointer, *types.Map, *types.Chan, *types.Signature, *types.Interface:
		out = []Leaf{{"", sortRef}}
	case *types.Slice:
		out = []Leaf{{".ref", sortRef}, {".off", sortInt}, {".len", sortInt}, {".cap", sortInt}}
	case *types.Struct:
		for i := 0; i < u.NumFields(); i++ {
			f := u.Field(i)
			for _, l := range leavesOf(f.Type()) {
				out = append(out, Leaf{"." + f.Name() + l.Path, l.Sort})
			}
		}
	case *types.Array:
		for _, l := range leavesOf(u.Elem()) {
			out = append(out, Leaf{"[]" + l.Path, arraySort(sortInt, l.Sort)})
		}
	case *types.Tuple:
		for i := 0; i < u.Len(); i++ {
			for _, l := range leavesOf(u.At(i).Type()) {
				out = append(out, Leaf{fmt.Sprintf(".%d", i) + l.Path, l.Sort})
			}
		}
	default:
		unsupp("type %s", t)
	}
	leafCache[k] = out
	return out
}

// FuncVal is a function literal value (closure); calls are executed in the defining environment.
type FuncVal struct {
	Lit  *ast.FuncLit
	Info *types.Info
	Pkg  *types.Package
	Fn   *FuncInfo // or a declared function
	Recv *Value    // bound receiver for method values
}

// Value of Go type T.
type Value struct {
	T   types.Type
	L   map[string]*Term
	Loc *LValue    // static interior pointer (T is a pointer type)
	Fn  *FuncVal   // function literal / method value
	Ty  types.Type // for interface values with statically known dynamic type (best effort)
}

func (v Value) scalar() *Term {
	t, ok := v.L[""]
	if !ok {
		panic(fmt.Sprintf("scalar() on non-scalar value of type %s (leaves %v)", v.T, v.paths()))
	}
	return t
}

func (v Value) paths() []string {
	var ps []string
	for _, p := range sortedKeys(v.L) {
		ps = append(ps, p)
	}
	sort.Strings(ps)
	return ps
}

func scalarV(t types.Type, x *Term) Value { return Value{T: t, L: map[string]*Term{"": x}} }

func boolV(x *Term) Value { return scalarV(types.Typ[types.Bool], x) }

// field projects the sub-value at prefix (e.g. ".f" or "[]"), of type ft.
func (v Value) field(prefix string, ft types.Type) Value {
	out := Value{T: ft, L: map[string]*Term{}}
	for _, l := range leavesOf(ft) {
		t, ok := v.L[prefix+l.Path]
		if !ok {
			panic(fmt.Sprintf("field %q of %s: missing leaf %q (have %v)", prefix, v.T, prefix+l.Path, v.paths()))
		}
		out.L[l.Path] = t
	}
	return out
}

func (v Value) withField(prefix string, sub Value) Value {
	out := Value{T: v.T, L: make(map[string]*Term, len(v.L))}
	for _, p := range sortedKeys(v.L) {
		t := v.L[p]
		_ = t
		out.L[p] = t
	}
	for _, p := range sortedKeys(sub.L) {
		t := sub.L[p]
		_ = t
		out.L[prefix+p] = t
	}
	return out
}

// index on a fixed-size array value.
func (v Value) index(et types.Type, idx *Term) Value {
	out := Value{T: et, L: map[string]*Term{}}
	for _, l := range leavesOf(et) {
		out.L[l.Path] = mkSelect(v.L["[]"+l.Path], idx)
	}
	return out
}

func (v Value) withIndex(idx *Term, sub Value) Value {
	out := Value{T: v.T, L: make(map[string]*Term, len(v.L))}
	for _, p := range sortedKeys(v.L) {
		t := v.L[p]
		_ = t
		out.L[p] = t
	}
	for _, p := range sortedKeys(sub.L) {
		t := sub.L[p]
		_ = t
		out.L["[]"+p] = mkStore(v.L["[]"+p], idx, t)
	}
	return out
}

func zeroTerm(s *Sort) *Term {
	switch s.K {
	case SBool:
		return tFalse
	case SGoInt, SMath:
		return mkInt(s, 0)
	case SFP:
		return mkFP(0)
	case SArray:
		return mkConstArr(s, zeroTerm(s.Elem))
	case SUn:
		if s.Name == "Str" {
			return strConst("")
		}
	}
	panic("zeroTerm " + s.String())
}

const zeroTimeSec = -62135596800

func zeroValue(t types.Type) Value {
	v := Value{T: t, L: map[string]*Term{}}
	for _, l := range leavesOf(t) {
		v.L[l.Path] = zeroTerm(l.Sort)
	}
	fixZeroTime(t, "", &v)
	return v
}

// time.Time's zero value is year 1, i.e. Unix() == -62135596800.
func fixZeroTime(t types.Type, prefix string, v *Value) {
	if isTime(t) {
		v.L[prefix+".sec"] = mkInt(goInt(64, true), zeroTimeSec)
		return
	}
	switch u := t.Underlying().(type) {
	case *types.Struct:
		for i := 0; i < u.NumFields(); i++ {
			fixZeroTime(u.Field(i).Type(), prefix+"."+u.Field(i).Name(), v)
		}
	case *types.Array:
		if hasTime(u.Elem()) {
			for _, l := range leavesOf(u.Elem()) {
				sub := Value{T: u.Elem(), L: map[string]*Term{}}
				for _, l2 := range leavesOf(u.Elem()) {
					sub.L[l2.Path] = zeroTerm(l2.Sort)
				}
				fixZeroTime(u.Elem(), "", &sub)
				v.L[prefix+"[]"+l.Path] = mkConstArr(arraySort(sortInt, l.Sort), sub.L[l.Path])
			}
		}
	}
}

func hasTime(t types.Type) bool {
	if isTime(t) {
		return true
	}
	switch u := t.Underlying().(type) {
	case *types.Struct:
		for i := 0; i < u.NumFields(); i++ {
			if hasTime(u.Field(i).Type()) {
				return true
			}
		}
	case *types.Array:
		return hasTime(u.Elem())
	}
	return false
}

func freshValue(prefix string, t types.Type) Value {
	v := Value{T: t, L: map[string]*Term{}}
	for _, l := range leavesOf(t) {
		v.L[l.Path] = freshVar(prefix+l.Path, l.Sort)
	}
	return v
}

func namedValue(name string, t types.Type) Value {
	v := Value{T: t, L: map[string]*Term{}}
	for _, l := range leavesOf(t) {
		v.L[l.Path] = mkVar(name+l.Path, l.Sort)
	}
	return v
}

// string constants: distinct uninterpreted constants with known length
var strConsts = map[string]*Term{}

func strConst(s string) *Term {
	if t, ok := strConsts[s]; ok {
		return t
	}
	t := mkApp(fmt.Sprintf("str!%d!%s", len(strConsts), sanitize(s)), sortStr)
	strConsts[s] = t
	return t
}

func sanitize(s string) string {
	var sb strings.Builder
	for _, c := range s {
		if c >= 'a' && c <= 'z' || c >= 'A' && c <= 'Z' || c >= '0' && c <= '9' {
			sb.WriteRune(c)
		} else {
			sb.WriteRune('_')
		}
		if sb.Len() > 24 {
			break
		}
	}
	return sb.String()
}

// facts about all string constants used so far: pairwise distinct, lengths
func strConstFacts() []*Term {
	var ks []string
	for k := range strConsts {
		ks = append(ks, k)
	}
	sort.Strings(ks)
	var out []*Term
	if len(ks) > 1 {
		var ts []*Term
		for _, k := range ks {
			ts = append(ts, strConsts[k])
		}
		out = append(out, mk("distinct", sortBool, ts...))
	}
	for _, k := range ks {
		out = append(out, mkEq(mkApp("strlen", sortInt, strConsts[k]), mkInt(sortInt, int64(len(k)))))
	}
	return out
}

// validity assumptions for a freshly havoced value (invariants of the representation)
func validFacts(v Value) []*Term {
	var out []*Term
	var rec func(t types.Type, prefix string)
	rec = func(t types.Type, prefix string) {
		if isTime(t) {
			ns := v.L[prefix+".nsec"]
			if ns.Sort.K == SGoInt {
				out = append(out, mkCmp("le", mkInt(ns.Sort, 0), ns), mkCmp("lt", ns, mkInt(ns.Sort, 1000000000)))
			}
			return
		}
		switch u := t.Underlying().(type) {
		case *types.Struct:
			if isNamed(t, "sync", "Mutex") {
				return
			}
			for i := 0; i < u.NumFields(); i++ {
				rec(u.Field(i).Type(), prefix+"."+u.Field(i).Name())
			}
		case *types.Slice:
			off, ln, cp, ref := v.L[prefix+".off"], v.L[prefix+".len"], v.L[prefix+".cap"], v.L[prefix+".ref"]
			z := mkInt(sortInt, 0)
			out = append(out, mkCmp("le", z, off), mkCmp("le", z, ln), mkCmp("le", ln, cp),
				mkCmp("le", off, mkInt(sortInt, 1<<40)), mkCmp("le", cp, mkInt(sortInt, 1<<40)),
				mkCmp("le", mkInt(sortMath, 0), ref),
				// a nil slice has no backing region and zero length/capacity
				mkImplies(mkEq(ref, mkInt(sortRef, 0)), mkAnd(mkEq(cp, z), mkEq(off, z))))
		case *types.Pointer, *types.Map, *types.Chan, *types.Signature, *types.Interface:
			out = append(out, mkCmp("le", mkInt(sortMath, 0), v.L[prefix]))
		case *types.Basic:
			if u.Kind() == types.String {
				out = append(out, mkCmp("le", mkInt(sortInt, 0), mkApp("strlen", sortInt, v.L[prefix])))
			}
		}
	}
	rec(v.T, "")
	return out
}
