package main

// Contracts: structured comments (//@ ...) in /repo/<pkg>/contracts_verif.go, keyed by function and loop ordinal.

import (
	"bytes"
	"fmt"
	"go/ast"
	"go/constant"
	"go/parser"
	"go/printer"
	"go/token"
	"go/types"
	"math/big"
	"regexp"
	"strconv"
	"strings"
)

type Clause struct {
	Kind    string // requires ensures invariant decreases modifies panics entry
	Label   string
	Text    string
	Ord     string
	Name    string // entry name
	Props   []string
	Line    string // file:line of the contract comment
	LockInv bool   // lock invariant: not part of the caller-visible contract
	Scope   bool   // callsite scope restriction (assumed, listed)

	compiled bool
	err      error
	Lit      *ast.FuncLit
	Expr     ast.Expr
	Exprs    []ast.Expr
	Info     *types.Info
	Params   map[string]types.Object
	Pkg      *types.Package
}

type Contract struct {
	Target       string
	Requires     []*Clause
	Ensures      []*Clause
	Entries      []*Clause
	Modifies     []*Clause
	PanicsWhen   []*Clause
	Measure      *Clause // function-level `decreases e`: termination measure of a recursive (lemma) function
	Loops        map[string][]*Clause
	Callbacks    map[string][]*Clause // function-typed parameter -> cb-requires / cb-modifies / cb-ensures
	Spawns       map[string][]*Clause // go statement ordinal -> requires on the spawned literal's arguments
	Ghosts       []GhostParam
	Inline       bool
	Split        map[int]bool
	NoError      []string
	NonNil       []string
	Trusted      bool // contract assumed, body not verified (listed as assumption)
	NoFrame      bool
	Bounded      string
	Props        []string
	allocates    bool
	checkFrame   bool
	noReturnOK   bool
	readsClock   bool
	MayPanic     []string
	iface        bool
	CallSites    map[string][]*Clause // "<callee text>#<ordinal>" -> requires evaluated in the caller's scope at that call
	seals, opens bool                 // the function performs an AEAD seal / open whose ghost trace its ensures clauses describe
	File         string
	used         bool
}

type GhostParam struct {
	Name string
	Type string // Go type text
}

type Lemma struct {
	Name     string
	Params   string
	Requires []string
	Ensures  []string
	Props    []string
	Pkg      string
	File     string
	Line     string
}

// ExternDir: "//@ extern <callee full name> <stub> [leading argument texts...]": calls of the external function in this
// package are checked against (and summarised by) the contract of the package-local stub function, which is itself
// trusted (its body is the real call). Leading arguments must be written exactly as given (e.g. &tssQ).
type ExternDir struct {
	Callee, Stub string
	Lead         []string
	Pos          string
}

// LockDir: "//@ lock <mutex> guards <global>, <global>": every read or write of the named package-level variables
// must happen while the mutex is held (ghost lock state).
type LockDir struct {
	Mutex   string
	Globals []string
	Pos     string
}

// countedCalls: the call counters named by calls("...") anywhere in the contracts; only these are maintained for
// concrete (non-interface) callees, keyed "<ReceiverType>.<Method>" or "<pkg>.<Func>".
var countedCalls = map[string]bool{}
var reCalls = regexp.MustCompile(`calls\("([^"]+)"\)`)

var externDirs = map[string][]*ExternDir{}
var lockDirs = map[string][]*LockDir{}

var reLabel = regexp.MustCompile(`^([A-Za-z][A-Za-z0-9_#\-]*):\s+(.*)$`)

// parseContractFile extracts contract blocks from a comment-only Go file.
func parseContractFile(fset *token.FileSet, f *ast.File, pkgPath string) ([]*Contract, []*Lemma, error) {
	var lines []struct {
		text string
		pos  string
	}
	for _, cg := range f.Comments {
		for _, c := range cg.List {
			t := c.Text
			if !strings.HasPrefix(t, "//@") {
				continue
			}
			p := fset.Position(c.Pos())
			lines = append(lines, struct {
				text string
				pos  string
			}{strings.TrimSpace(t[3:]), fmt.Sprintf("%s:%d", strings.TrimPrefix(p.Filename, repoRoot+"/"), p.Line)})
		}
	}
	for _, ln := range lines {
		for _, m := range reCalls.FindAllStringSubmatch(ln.text, -1) {
			countedCalls[m[1]] = true
		}
	}
	var cons []*Contract
	var lemmas []*Lemma
	type predDef struct {
		name   string
		params []string
		body   string
	}
	var preds []predDef
	expand := func(text string) string {
		for iter := 0; iter < 6; iter++ {
			changed := false
			for _, pd := range preds {
				for {
					idx := findCall(text, pd.name)
					if idx < 0 {
						break
					}
					open := idx + len(pd.name)
					depth := 0
					end := -1
					for k := open; k < len(text); k++ {
						if text[k] == '(' {
							depth++
						} else if text[k] == ')' {
							depth--
							if depth == 0 {
								end = k
								break
							}
						}
					}
					if end < 0 {
						break
					}
					args := splitTop(text[open+1:end], ",")
					body := pd.body
					if len(args) == len(pd.params) {
						for i, prm := range pd.params {
							body = regexp.MustCompile(`\b`+regexp.QuoteMeta(prm)+`\b`).ReplaceAllLiteralString(body, "("+strings.TrimSpace(args[i])+")")
						}
					}
					text = text[:idx] + "(" + body + ")" + text[end+1:]
					changed = true
				}
			}
			if !changed {
				break
			}
		}
		return text
	}
	defer func() {
		for _, c := range cons {
			var all []*Clause
			all = append(all, c.Requires...)
			all = append(all, c.Ensures...)
			all = append(all, c.Entries...)
			all = append(all, c.PanicsWhen...)
			if c.Measure != nil {
				all = append(all, c.Measure)
			}
			for _, l := range c.Loops {
				all = append(all, l...)
			}
			for _, l := range c.Callbacks {
				all = append(all, l...)
			}
			for _, l := range c.Spawns {
				all = append(all, l...)
			}
			for _, l := range c.CallSites {
				all = append(all, l...)
			}
			for _, cl := range all {
				cl.Text = expand(cl.Text)
			}
		}
		for _, l := range lemmas {
			for i := range l.Requires {
				l.Requires[i] = expand(l.Requires[i])
			}
			for i := range l.Ensures {
				l.Ensures[i] = expand(l.Ensures[i])
			}
		}
	}()
	var cur *Contract
	var curL *Lemma
	var last *Clause
	var lastL *[]string
	lastPred := -1
	for _, ln := range lines {
		t := ln.text
		if t == "" {
			continue
		}
		word, rest := t, ""
		if i := strings.IndexAny(t, " \t"); i >= 0 {
			word, rest = t[:i], strings.TrimSpace(t[i+1:])
		}
		switch word {
		case "func":
			tgt := rest
			if i := strings.Index(tgt, " "); i >= 0 && !strings.HasPrefix(tgt, "(") {
				tgt = tgt[:i]
			}
			cur = &Contract{Target: normTarget(tgt), Loops: map[string][]*Clause{}, Callbacks: map[string][]*Clause{}, Spawns: map[string][]*Clause{}, CallSites: map[string][]*Clause{}, File: ln.pos, checkFrame: true}
			cons = append(cons, cur)
			curL = nil
			last = nil
			continue
		case "extern":
			fs := strings.Fields(rest)
			if len(fs) < 2 {
				return nil, nil, fmt.Errorf("%s: extern <callee> <stub> [args...]", ln.pos)
			}
			externDirs[pkgPath] = append(externDirs[pkgPath], &ExternDir{Callee: fs[0], Stub: fs[1], Lead: fs[2:], Pos: ln.pos})
			cur, curL, last = nil, nil, nil
			continue
		case "lock":
			fs := strings.Fields(strings.ReplaceAll(rest, ",", " "))
			if len(fs) < 3 || fs[1] != "guards" {
				return nil, nil, fmt.Errorf("%s: lock <mutex> guards <globals>", ln.pos)
			}
			lockDirs[pkgPath] = append(lockDirs[pkgPath], &LockDir{Mutex: fs[0], Globals: fs[2:], Pos: ln.pos})
			cur, curL, last = nil, nil, nil
			continue
		case "pred":
			// pred name(a, b) = body      (textual macro; continuation lines with "|")
			eq := strings.Index(rest, "=")
			i := strings.Index(rest, "(")
			j := strings.Index(rest, ")")
			if eq < 0 || i < 0 || j < i || j > eq {
				return nil, nil, fmt.Errorf("%s: pred name(params) = body", ln.pos)
			}
			var ps []string
			for _, x := range strings.Split(rest[i+1:j], ",") {
				if x = strings.TrimSpace(x); x != "" {
					ps = append(ps, x)
				}
			}
			preds = append(preds, predDef{name: strings.TrimSpace(rest[:i]), params: ps, body: strings.TrimSpace(rest[eq+1:])})
			cur = nil
			curL = nil
			last = nil
			lastPred = len(preds) - 1
			continue
		case "lemma":
			i := strings.Index(rest, "(")
			j := strings.LastIndex(rest, ")")
			if i < 0 || j < i {
				return nil, nil, fmt.Errorf("%s: malformed lemma header", ln.pos)
			}
			curL = &Lemma{Name: strings.TrimSpace(rest[:i]), Params: rest[i+1 : j], Pkg: pkgPath, Line: ln.pos}
			lemmas = append(lemmas, curL)
			cur = nil
			last = nil
			continue
		case "|":
			// continuation line
			if lastPred >= 0 && last == nil && curL == nil && cur == nil {
				preds[lastPred].body += " " + rest
				continue
			}
			if last != nil {
				last.Text += " " + rest
			} else if lastL != nil && len(*lastL) > 0 {
				(*lastL)[len(*lastL)-1] += " " + rest
			}
			continue
		}
		if curL != nil {
			switch word {
			case "requires":
				curL.Requires = append(curL.Requires, rest)
				lastL = &curL.Requires
			case "ensures":
				curL.Ensures = append(curL.Ensures, rest)
				lastL = &curL.Ensures
			case "props":
				curL.Props = strings.Fields(strings.ReplaceAll(rest, ",", " "))
			default:
				return nil, nil, fmt.Errorf("%s: unknown lemma clause %q", ln.pos, word)
			}
			continue
		}
		if cur == nil {
			return nil, nil, fmt.Errorf("%s: clause outside a func block: %s", ln.pos, t)
		}
		mk := func(kind, text string) *Clause {
			c := &Clause{Kind: kind, Text: text, Line: ln.pos}
			if m := reLabel.FindStringSubmatch(text); m != nil {
				c.Label = m[1]
				c.Text = m[2]
			}
			last = c
			return c
		}
		switch word {
		case "requires":
			cur.Requires = append(cur.Requires, mk("requires", rest))
		case "ensures":
			cur.Ensures = append(cur.Ensures, mk("ensures", rest))
		case "lockinv":
			// invariant of lock-guarded state: assumed when the function starts (it holds whenever the lock is free, and the
			// function touches the guarded state only inside its critical section), proved when it returns; callers neither
			// owe it nor learn it
			r := mk("requires", rest)
			r.LockInv = true
			cur.Requires = append(cur.Requires, r)
			e := mk("ensures", "lockinv: "+rest)
			e.LockInv = true
			cur.Ensures = append(cur.Ensures, e)
			last = nil
		case "modifies":
			c := &Clause{Kind: "modifies", Text: rest, Line: ln.pos}
			last = c
			cur.Modifies = append(cur.Modifies, c)
		case "maypanic":
			// maypanic "<message>": an explicit panic with this constant message is a declared refusal whose condition
			// depends on values read during the call (no obligation is generated for it)
			// maypanic <errName> #k: only the k-th panic(<errName>) of the body, in source order
			cur.MayPanic = append(cur.MayPanic, strings.TrimSpace(rest))
		case "decreases":
			// function-level measure: every recursive call must be made with a strictly smaller, non-negative value
			cur.Measure = &Clause{Kind: "fdecreases", Text: rest, Line: ln.pos}
			last = cur.Measure
		case "panics":
			r := strings.TrimSpace(strings.TrimPrefix(rest, "when"))
			cur.PanicsWhen = append(cur.PanicsWhen, mk("panics", r))
		case "entry":
			i := strings.Index(rest, ":=")
			if i < 0 {
				return nil, nil, fmt.Errorf("%s: entry needs name := expr", ln.pos)
			}
			c := &Clause{Kind: "entry", Name: strings.TrimSpace(rest[:i]), Text: strings.TrimSpace(rest[i+2:]), Line: ln.pos}
			last = c
			cur.Entries = append(cur.Entries, c)
		case "loop":
			parts := strings.SplitN(rest, " ", 3)
			if len(parts) < 3 || (parts[1] != "invariant" && parts[1] != "decreases" && parts[1] != "iterensures") {
				return nil, nil, fmt.Errorf("%s: loop <ord> invariant|decreases|iterensures <expr>", ln.pos)
			}
			c := &Clause{Kind: parts[1], Ord: parts[0], Text: strings.TrimSpace(parts[2]), Line: ln.pos}
			if parts[1] == "iterensures" {
				// iteration postcondition "label: expr": holds at the end of every iteration; prev(e) is the value of e at
				// the head of that iteration
				if m := reLabel.FindStringSubmatch(c.Text); m != nil {
					c.Label, c.Text = m[1], m[2]
				}
			}
			last = c
			cur.Loops[parts[0]] = append(cur.Loops[parts[0]], c)
		case "go":
			parts := strings.SplitN(rest, " ", 3)
			if len(parts) != 3 || parts[1] != "requires" {
				return nil, nil, fmt.Errorf("%s: go <ord> requires <expr>", ln.pos)
			}
			c := &Clause{Kind: "go-requires", Ord: parts[0], Text: strings.TrimSpace(parts[2]), Line: ln.pos}
			last = c
			cur.Spawns[parts[0]] = append(cur.Spawns[parts[0]], c)
		case "callsite":
			// callsite <callee-text> <ordinal> requires <expr>
			parts := strings.SplitN(rest, " ", 4)
			if len(parts) != 4 || (parts[2] != "requires" && parts[2] != "scope") {
				return nil, nil, fmt.Errorf("%s: callsite <callee> <ordinal> requires|scope <expr>", ln.pos)
			}
			c := &Clause{Kind: "callsite-requires", Name: parts[0], Ord: parts[1], Text: strings.TrimSpace(parts[3]), Line: ln.pos}
			// "scope": a stated restriction of what the contract covers (e.g. the kind of input an iteration handles); paths
			// outside it are not examined. It is an assumption and is listed as such in the evidence.
			c.Scope = parts[2] == "scope"
			last = c
			cur.CallSites[parts[0]+"#"+parts[1]] = append(cur.CallSites[parts[0]+"#"+parts[1]], c)
		case "ghostparam":
			parts := strings.SplitN(rest, " ", 2)
			if len(parts) != 2 {
				return nil, nil, fmt.Errorf("%s: ghostparam <name> <type>", ln.pos)
			}
			cur.Ghosts = append(cur.Ghosts, GhostParam{parts[0], strings.TrimSpace(parts[1])})
		case "callback":
			parts := strings.SplitN(rest, " ", 3)
			if len(parts) != 3 || (parts[1] != "requires" && parts[1] != "modifies" && parts[1] != "ensures") {
				return nil, nil, fmt.Errorf("%s: callback <param> requires|modifies|ensures <expr>", ln.pos)
			}
			c := &Clause{Kind: "cb-" + parts[1], Name: parts[0], Text: strings.TrimSpace(parts[2]), Line: ln.pos}
			last = c
			cur.Callbacks[parts[0]] = append(cur.Callbacks[parts[0]], c)
		case "inline":
			cur.Inline = true
		case "trusted":
			cur.Trusted = true
		case "clock":
			cur.readsClock = true
		case "aead":
			if rest == "seal" {
				cur.seals = true
			} else if rest == "open" {
				cur.opens = true
			} else {
				return nil, nil, fmt.Errorf("%s: aead seal|open", ln.pos)
			}
		case "split":
			// split <if ordinals>: the paths through these if statements (ordinals among the if statements of the
			// function that are not inside a loop, in source order) are verified separately instead of being merged
			cur.Split = map[int]bool{}
			for _, f := range strings.Fields(rest) {
				n, err := strconv.Atoi(f)
				if err != nil {
					return nil, nil, fmt.Errorf("%s: split <if ordinals>", ln.pos)
				}
				cur.Split[n] = true
			}
		case "noerror":
			// noerror <callee text>, ...: the error result of these (third-party) calls is assumed nil in this function; listed
			// as an assumption. Used for serialisation calls on values that were just decoded.
			for _, f := range strings.Split(rest, ",") {
				if f = strings.ReplaceAll(strings.TrimSpace(f), " ", ""); f != "" {
					cur.NoError = append(cur.NoError, f)
				}
			}
		case "nonnil":
			// nonnil <callee text>, ...: the (first) pointer result of these calls is assumed non-nil in this function (e.g. an
			// atomic pointer that the package's init function always sets); listed as an assumption
			for _, f := range strings.Split(rest, ",") {
				if f = strings.ReplaceAll(strings.TrimSpace(f), " ", ""); f != "" {
					cur.NonNil = append(cur.NonNil, f)
				}
			}
		case "noframe":
			cur.checkFrame = false
		case "noreturn":
			cur.noReturnOK = true
		case "allocates":
			cur.allocates = true
		case "bounded":
			cur.Bounded = rest
		case "props":
			cur.Props = strings.Fields(strings.ReplaceAll(rest, ",", " "))
		default:
			return nil, nil, fmt.Errorf("%s: unknown clause %q", ln.pos, word)
		}
	}
	return cons, lemmas, nil
}

// findCall returns the index of an occurrence of name followed by "(" at a word boundary, or -1.
func findCall(text, name string) int {
	from := 0
	for {
		i := strings.Index(text[from:], name+"(")
		if i < 0 {
			return -1
		}
		i += from
		if i == 0 || !isIdentChar(text[i-1]) && text[i-1] != '.' {
			return i
		}
		from = i + 1
	}
}

func normTarget(t string) string {
	t = strings.TrimSpace(t)
	t = strings.ReplaceAll(t, " ", "")
	return t
}

// ---- textual rewriting of the specification extensions into Go syntax ----

func splitTop(s string, sep string) []string {
	var out []string
	depth := 0
	start := 0
	for i := 0; i < len(s); i++ {
		switch s[i] {
		case '(', '[', '{':
			depth++
		case ')', ']', '}':
			depth--
		case '"':
			for i++; i < len(s) && s[i] != '"'; i++ {
				if s[i] == '\\' {
					i++
				}
			}
		}
		if depth == 0 && strings.HasPrefix(s[i:], sep) {
			out = append(out, s[start:i])
			start = i + len(sep)
			i += len(sep) - 1
		}
	}
	out = append(out, s[start:])
	return out
}

func isIdentChar(c byte) bool {
	return c == '_' || c >= 'a' && c <= 'z' || c >= 'A' && c <= 'Z' || c >= '0' && c <= '9'
}

func rewriteSpec(s string) (string, error) {
	s = strings.TrimSpace(s)
	if parts := splitTop(s, "==>"); len(parts) > 1 {
		l, err := rewriteSpec(parts[0])
		if err != nil {
			return "", err
		}
		r, err := rewriteSpec(strings.Join(parts[1:], "==>"))
		if err != nil {
			return "", err
		}
		return "implies__(" + l + ", " + r + ")", nil
	}
	var out strings.Builder
	for i := 0; i < len(s); i++ {
		c := s[i]
		if c == '"' {
			j := i + 1
			for ; j < len(s) && s[j] != '"'; j++ {
				if s[j] == '\\' {
					j++
				}
			}
			out.WriteString(s[i:min(j+1, len(s))])
			i = j
			continue
		}
		if c != '(' && c != '[' && c != '{' {
			out.WriteByte(c)
			continue
		}
		// find the matching close
		depth := 0
		j := i
		for ; j < len(s); j++ {
			switch s[j] {
			case '(', '[', '{':
				depth++
			case ')', ']', '}':
				depth--
			}
			if depth == 0 {
				break
			}
		}
		if j >= len(s) {
			return "", fmt.Errorf("unbalanced brackets in %q", s)
		}
		inner := s[i+1 : j]
		// quantifier?
		k := i
		for k > 0 && isIdentChar(s[k-1]) {
			k--
		}
		word := s[k:i]
		if c == '(' && word == "all" {
			args := splitTop(inner, ",")
			if len(args) < 2 {
				return "", fmt.Errorf("all(k, body) expected in %q", s)
			}
			body, err := rewriteSpec(strings.Join(args[1:], ","))
			if err != nil {
				return "", err
			}
			cur := out.String()
			out.Reset()
			out.WriteString(cur[:len(cur)-len(word)])
			binder := strings.TrimSpace(args[0])
			if !strings.ContainsAny(binder, " \t") {
				binder += " int"
			}
			fmt.Fprintf(&out, "all__(func(%s) bool { return %s })", binder, body)
			i = j
			continue
		}
		if c == '(' && (word == "forall" || word == "exists" || word == "forallq") {
			args := splitTop(inner, ",")
			if len(args) < 4 {
				return "", fmt.Errorf("%s(i, lo, hi, body) expected in %q", word, s)
			}
			lo, err := rewriteSpec(args[1])
			if err != nil {
				return "", err
			}
			hi, err := rewriteSpec(args[2])
			if err != nil {
				return "", err
			}
			body, err := rewriteSpec(strings.Join(args[3:], ","))
			if err != nil {
				return "", err
			}
			cur := out.String()
			out.Reset()
			out.WriteString(cur[:len(cur)-len(word)])
			fmt.Fprintf(&out, "%s__(%s, %s, func(%s int) bool { return %s })", word, lo, hi, strings.TrimSpace(args[0]), body)
			i = j
			continue
		}
		parts := splitTop(inner, ",")
		for pi, p := range parts {
			if strings.TrimSpace(p) == "" {
				continue
			}
			r, err := rewriteSpec(p)
			if err != nil {
				return "", err
			}
			parts[pi] = r
		}
		out.WriteByte(c)
		out.WriteString(strings.Join(parts, ", "))
		out.WriteByte(s[j])
		i = j
	}
	return out.String(), nil
}

// ---- compilation ----

func nodeText(fset *token.FileSet, n ast.Node) string {
	var buf bytes.Buffer
	printer.Fprint(&buf, fset, n)
	return buf.String()
}

// paramDecls renders receiver, parameters and results of fi as wrapper parameters.
func (vc *VC) paramDecls(fi *FuncInfo, withResults bool) []string {
	var out []string
	add := func(fl *ast.FieldList, results bool) {
		if fl == nil {
			return
		}
		n := 0
		total := 0
		for _, f := range fl.List {
			if len(f.Names) == 0 {
				total++
			} else {
				total += len(f.Names)
			}
		}
		for _, f := range fl.List {
			tt := nodeText(vc.fset, f.Type)
			if strings.HasPrefix(tt, "...") {
				tt = "[]" + tt[3:]
			}
			if len(f.Names) == 0 {
				if results {
					if total == 1 {
						out = append(out, "result "+tt)
					}
					out = append(out, fmt.Sprintf("result%d %s", n, tt))
				}
				n++
				continue
			}
			for _, nm := range f.Names {
				if nm.Name != "_" {
					out = append(out, nm.Name+" "+tt)
					if results {
						if total == 1 {
							out = append(out, "result "+tt)
						}
						out = append(out, fmt.Sprintf("result%d %s", n, tt))
					}
				}
				n++
			}
		}
	}
	add(fi.Decl.Recv, false)
	add(fi.Decl.Type.Params, false)
	if withResults {
		add(fi.Decl.Type.Results, true)
	}
	return out
}

func (vc *VC) findLoop(fi *FuncInfo, ord string) ast.Stmt {
	var found ast.Stmt
	var walk func(n ast.Node, prefix []int)
	walk = func(n ast.Node, prefix []int) {
		counter := 0
		ast.Inspect(n, func(x ast.Node) bool {
			if x == nil || found != nil {
				return false
			}
			if x == n {
				return true
			}
			switch s := x.(type) {
			case *ast.FuncLit:
				return false
			case *ast.ForStmt, *ast.RangeStmt:
				me := append(append([]int{}, prefix...), counter)
				counter++
				parts := make([]string, len(me))
				for i, v := range me {
					parts[i] = fmt.Sprint(v)
				}
				if strings.Join(parts, ".") == ord {
					found = s.(ast.Stmt)
					return false
				}
				var body *ast.BlockStmt
				if f, ok := s.(*ast.ForStmt); ok {
					body = f.Body
				} else {
					body = s.(*ast.RangeStmt).Body
				}
				walk(body, me)
				return false
			}
			return true
		})
	}
	walk(fi.Decl.Body, nil)
	return found
}

func (vc *VC) findCallSite(fi *FuncInfo, callee, ord string) *ast.CallExpr {
	var found *ast.CallExpr
	n := 0
	ast.Inspect(fi.Decl.Body, func(x ast.Node) bool {
		if ce, ok := x.(*ast.CallExpr); ok {
			if strings.ReplaceAll(nodeText(vc.fset, ce.Fun), " ", "") == callee {
				if fmt.Sprint(n) == ord && found == nil {
					found = ce
				}
				n++
			}
		}
		return true
	})
	return found
}

func (vc *VC) findGo(fi *FuncInfo, ord string) *ast.GoStmt {
	var found *ast.GoStmt
	n := 0
	ast.Inspect(fi.Decl.Body, func(x ast.Node) bool {
		if g, ok := x.(*ast.GoStmt); ok {
			if fmt.Sprint(n) == ord && found == nil {
				found = g
			}
			n++
		}
		return true
	})
	return found
}

func (vc *VC) compileClause(fi *FuncInfo, c *Clause) {
	if c.compiled {
		return
	}
	c.compiled = true
	fail := func(format string, a ...any) {
		c.err = fmt.Errorf("%s: %s: %s", c.Line, c.Kind, fmt.Sprintf(format, a...))
	}
	text, err := rewriteSpec(c.Text)
	if err != nil {
		fail("%v", err)
		return
	}
	var params []string
	pos := fi.Decl.Name.Pos()
	if c.Kind == "callsite-requires" {
		ce := vc.findCallSite(fi, c.Name, c.Ord)
		if ce == nil {
			fail("no call %s #%s in %s", c.Name, c.Ord, fi.Short)
			return
		}
		pos = ce.Pos()
		// the actual arguments of the call are visible as arg0, arg1, ... (basic types only)
		for i, a := range ce.Args {
			if bt, ok := fi.Pkg.TypesInfo.TypeOf(a).(*types.Basic); ok && bt.Kind() != types.UntypedNil {
				params = append(params, fmt.Sprintf("arg%d %s", i, types.Default(bt).String()))
			}
		}
	} else if c.Kind == "go-requires" {
		gs := vc.findGo(fi, c.Ord)
		if gs == nil {
			fail("no go statement with ordinal %s in %s", c.Ord, fi.Short)
			return
		}
		pos = gs.Pos()
		if lit, ok := gs.Call.Fun.(*ast.FuncLit); ok {
			for _, pf := range lit.Type.Params.List {
				for _, pn := range pf.Names {
					params = append(params, pn.Name+" "+nodeText(vc.fset, pf.Type))
				}
			}
		}
	} else if c.Kind == "invariant" || c.Kind == "decreases" || c.Kind == "iterensures" {
		loop := vc.findLoop(fi, c.Ord)
		if loop == nil {
			fail("no loop with ordinal %s in %s", c.Ord, fi.Short)
			return
		}
		switch l := loop.(type) {
		case *ast.ForStmt:
			pos = l.Body.Lbrace + 1
		case *ast.RangeStmt:
			pos = l.Body.Lbrace + 1
		}
	} else {
		params = vc.paramDecls(fi, c.Kind != "requires" && c.Kind != "entry" && c.Kind != "fdecreases" && c.Kind != "panics" && !strings.HasPrefix(c.Kind, "cb-"))
	}
	if fi.Con != nil {
		for _, g := range fi.Con.Ghosts {
			params = append(params, g.Name+" "+g.Type)
		}
	}
	if strings.HasPrefix(c.Kind, "cb-") {
		// the callback's own parameters, as named in the function type of the parameter
		found := false
		for _, fld := range fi.Decl.Type.Params.List {
			for _, n := range fld.Names {
				if n.Name != c.Name {
					continue
				}
				ft, ok := fld.Type.(*ast.FuncType)
				if !ok {
					fail("%s is not a function-typed parameter", c.Name)
					return
				}
				found = true
				for _, pf := range ft.Params.List {
					for _, pn := range pf.Names {
						params = append(params, pn.Name+" "+nodeText(vc.fset, pf.Type))
					}
				}
			}
		}
		if !found {
			fail("no parameter %s", c.Name)
			return
		}
	}
	// entry names (only those compiled before this clause)
	if fi.Con != nil {
		for _, e := range fi.Con.Entries {
			if e == c {
				break
			}
			vc.compileClause(fi, e)
			if e.err != nil {
				c.err = e.err
				return
			}
			et := e.Info.TypeOf(e.Expr)
			params = append(params, e.Name+" "+types.TypeString(et, vc.qualifierFor(fi)))
		}
	}

	var src string
	switch c.Kind {
	case "modifies", "cb-modifies":
		src = "func(" + strings.Join(params, ", ") + ") []any { return []any{" + text + "} }"
	case "entry", "decreases", "fdecreases":
		src = "func(" + strings.Join(params, ", ") + ") any { return " + text + " }"
	default:
		src = "func(" + strings.Join(params, ", ") + ") bool { return " + text + " }"
	}
	e, err := parser.ParseExprFrom(vc.fset, "contract:"+c.Line, src, 0)
	if err != nil {
		fail("parse error: %v in %s", err, src)
		return
	}
	info := &types.Info{Types: map[ast.Expr]types.TypeAndValue{}, Uses: map[*ast.Ident]types.Object{}, Defs: map[*ast.Ident]types.Object{}, Selections: map[*ast.SelectorExpr]*types.Selection{}, Instances: map[*ast.Ident]types.Instance{}, Implicits: map[ast.Node]types.Object{}}
	if err := types.CheckExpr(vc.fset, fi.Pkg.Types, pos, e, info); err != nil {
		fail("type error: %v", err)
		return
	}
	c.Lit = e.(*ast.FuncLit)
	c.Info = info
	c.Pkg = fi.Pkg.Types
	c.Params = map[string]types.Object{}
	for _, f := range c.Lit.Type.Params.List {
		for _, n := range f.Names {
			c.Params[n.Name] = info.Defs[n]
		}
	}
	ret := c.Lit.Body.List[0].(*ast.ReturnStmt).Results[0]
	if c.Kind == "modifies" || c.Kind == "cb-modifies" {
		c.Exprs = ret.(*ast.CompositeLit).Elts
	} else {
		c.Expr = ret
	}
}

func (vc *VC) qualifierFor(fi *FuncInfo) types.Qualifier {
	names := map[string]string{}
	if fi.File != nil {
		for _, im := range fi.File.Imports {
			p := strings.Trim(im.Path.Value, `"`)
			if im.Name != nil {
				names[p] = im.Name.Name
			}
		}
	}
	return func(p *types.Package) string {
		if p == fi.Pkg.Types {
			return ""
		}
		if n, ok := names[p.Path()]; ok {
			return n
		}
		return p.Name()
	}
}

// withClauseFrame evaluates inside a pseudo-frame carrying the clause's type information.
func (ex *Exec) withClauseFrame(c *Clause, st, oldSt *State, bind map[string]Value, fn func(st *State)) {
	if c.err != nil {
		unsupp("contract error: %v", c.err)
	}
	var entry map[string]Value
	var cur *Frame
	if len(ex.frames) > 0 {
		cur = ex.frame()
		entry = cur.entry
	}
	f := &Frame{info: c.Info, pkg: c.Pkg, entry: entry, oldSt: oldSt, lit: true}
	if cur != nil {
		f.fn = cur.fn
		f.sig = cur.sig
	}
	saved := map[types.Object]*Value{}
	for name, obj := range c.Params {
		if obj == nil {
			continue
		}
		var v Value
		ok := false
		if bind != nil {
			v, ok = bind[name]
		}
		if !ok && entry != nil {
			v, ok = entry[name]
		}
		if !ok {
			continue
		}
		if old, has := st.env[obj]; has {
			o := old
			saved[obj] = &o
		} else {
			saved[obj] = nil
		}
		v2 := v
		if v.T != nil && obj.Type() != nil && !types.Identical(v.T, obj.Type()) {
			v2.T = obj.Type()
		}
		st.env[obj] = v2
	}
	ex.frames = append(ex.frames, f)
	ex.spec++
	prevOld := ex.oldSt
	ex.oldSt = oldSt
	defer func() {
		ex.oldSt = prevOld
		ex.spec--
		ex.frames = ex.frames[:len(ex.frames)-1]
		for obj, old := range saved {
			if old == nil {
				delete(st.env, obj)
			} else {
				st.env[obj] = *old
			}
		}
	}()
	fn(st)
}

func (ex *Exec) clauseOwner(c *Clause) *FuncInfo {
	return nil
}

func (ex *Exec) evalClause(c *Clause, st, oldSt *State, bind map[string]Value) *Term {
	return ex.evalClauseIn(c, st, oldSt, bind).scalar()
}

func (ex *Exec) evalClauseVal(c *Clause, st, oldSt *State) Value {
	return ex.evalClauseIn(c, st, oldSt, nil)
}

func (ex *Exec) evalClauseIn(c *Clause, st, oldSt *State, bind map[string]Value) Value {
	if !c.compiled {
		panic("clause not compiled: " + c.Text)
	}
	var out Value
	// evaluation must not leak assumptions or obligations into the caller's path
	sub := st.clone()
	if bind == nil && len(ex.frames) > 0 && ex.frames[0].bind != nil && ex.frame() == ex.frames[0] {
		bind = ex.frames[0].bind
	}
	n0 := len(sub.pc)
	ex.withClauseFrame(c, sub, oldSt, bind, func(s *State) {
		out = ex.eval(c.Expr, s)
	})
	if sub.dead {
		// the clause evaluated under impossible side conditions
		return out
	}
	// representation facts about the values read while evaluating the clause (slice headers, time values, ...) hold in st too
	for _, f := range sub.pc[n0:] {
		st.assume(f)
	}
	return out
}

// ---- specification functions ----

func (ex *Exec) evalSpecFunc(name string, call *ast.CallExpr, st *State) []Value {
	switch name {
	case "implies__":
		a := ex.eval(call.Args[0], st).scalar()
		sub := st.clone()
		sub.assume(a)
		if sub.dead {
			return []Value{boolV(tTrue)}
		}
		n0 := len(sub.pc)
		b := ex.eval(call.Args[1], sub).scalar()
		if !sub.dead {
			for _, f := range sub.pc[n0:] {
				st.assume(mkImplies(a, f))
			}
		}
		return []Value{boolV(mkImplies(a, b))}
	case "old":
		if ex.oldSt == nil {
			unsupp("old() outside a two-state context")
		}
		o := ex.oldSt.clone()
		for obj, v := range st.env {
			if _, has := o.env[obj]; !has {
				o.env[obj] = v
			}
		}
		// wrapper parameters and bound variables take their current binding
		for _, obj := range ex.boundObjs {
			if v, ok := st.env[obj]; ok {
				o.env[obj] = v
			}
		}
		return []Value{ex.eval(call.Args[0], o)}
	case "prev":
		if ex.loopHead == nil {
			unsupp("prev() outside an iteration postcondition")
		}
		{
			o := ex.loopHead.clone()
			for obj, v := range st.env {
				if _, has := o.env[obj]; !has {
					o.env[obj] = v
				}
			}
			for _, obj := range ex.boundObjs {
				if v, ok := st.env[obj]; ok {
					o.env[obj] = v
				}
			}
			return []Value{ex.eval(call.Args[0], o)}
		}
	case "before":
		if ex.loopEntry == nil {
			unsupp("before() outside a loop invariant")
		}
		o := ex.loopEntry.clone()
		for obj, v := range st.env {
			if _, has := o.env[obj]; !has {
				o.env[obj] = v
			}
		}
		for _, obj := range ex.boundObjs {
			if v, ok := st.env[obj]; ok {
				o.env[obj] = v
			}
		}
		return []Value{ex.eval(call.Args[0], o)}
	case "forall__", "exists__", "forallq__":
		// forallq is forall that is never expanded into instances, whatever its bounds (frame-like clauses whose
		// callers pass constant positions but whose goals range over symbolic lengths)
		keepQuant := name == "forallq__"
		if keepQuant {
			name = "forall__"
		}
		lo := ex.eval(call.Args[0], st).scalar()
		hi := ex.eval(call.Args[1], st).scalar()
		lit := call.Args[2].(*ast.FuncLit)
		info := ex.info()
		pid := lit.Type.Params.List[0].Names[0]
		obj := info.Defs[pid]
		// constant small ranges are expanded (quantifier-free obligations)
		if !keepQuant && lo.isConst() && hi.isConst() && new(big.Int).Sub(hi.Val, lo.Val).Cmp(big.NewInt(64)) <= 0 {
			var parts []*Term
			for k := new(big.Int).Set(lo.Val); k.Cmp(hi.Val) < 0; k = new(big.Int).Add(k, big.NewInt(1)) {
				sub := st.clone()
				sub.env[obj] = scalarV(types.Typ[types.Int], mkIntBig(sortInt, k))
				parts = append(parts, ex.eval(lit.Body.List[0].(*ast.ReturnStmt).Results[0], sub).scalar())
			}
			if name == "forall__" {
				return []Value{boolV(mkAnd(parts...))}
			}
			return []Value{boolV(mkOr(parts...))}
		}
		bv := freshVar(pid.Name, sortInt)
		sub := st.clone()
		npc := len(sub.pc)
		sub.env[obj] = scalarV(types.Typ[types.Int], bv)
		ex.boundObjs = append(ex.boundObjs, obj)
		body := ex.eval(lit.Body.List[0].(*ast.ReturnStmt).Results[0], sub).scalar()
		ex.boundObjs = ex.boundObjs[:len(ex.boundObjs)-1]
		guard := mkAnd(mkCmp("le", lo, bv), mkCmp("lt", bv, hi))
		side := mkAnd(sideFacts(sub.pc[npc:], bv)...)
		if ex.assuming > 0 {
			side = tTrue
		}
		var full *Term
		if name == "forall__" {
			full = mkImplies(mkAnd(guard, side), body)
		} else {
			full = mkAnd(guard, body)
		}
		qop := strings.TrimSuffix(name, "__")
		// change of variables to absolute indices: patterns without arithmetic make instantiation robust
		if off := findIndexOffset(full, bv); off != nil {
			x := freshVar("x", sortInt)
			full = subst(full, map[string]*Term{bv.Name: idxSub(x, off)})
			bv = x
		}
		var pats [][]*Term
		for _, t := range selectsOn(full, bv) {
			pats = append(pats, []*Term{t})
		}
		return []Value{boolV(mkQuant(qop, []*Term{bv}, full, pats...))}
	case "all__":
		lit := call.Args[0].(*ast.FuncLit)
		info := ex.info()
		pid := lit.Type.Params.List[0].Names[0]
		obj := info.Defs[pid]
		bt := obj.Type()
		bsort := sortInt
		switch u := bt.Underlying().(type) {
		case *types.Basic:
			if u.Info()&types.IsString != 0 {
				bsort = sortStr
			} else if u.Info()&types.IsInteger == 0 {
				unsupp("all(): binder type %s", bt)
			}
		case *types.Pointer:
			bsort = sortRef
		default:
			unsupp("all(): binder type %s", bt)
		}
		bv := freshVar(pid.Name, bsort)
		sub := st.clone()
		npc := len(sub.pc)
		sub.env[obj] = scalarV(bt, bv)
		ex.boundObjs = append(ex.boundObjs, obj)
		body := ex.eval(lit.Body.List[0].(*ast.ReturnStmt).Results[0], sub).scalar()
		ex.boundObjs = ex.boundObjs[:len(ex.boundObjs)-1]
		side := mkAnd(sideFacts(sub.pc[npc:], bv)...)
		if ex.assuming > 0 {
			// representation invariants of values read under the binder hold for every index: no hypothesis needed when the formula is assumed
			side = tTrue
		}
		full := mkImplies(side, body)
		var pats [][]*Term
		for _, t := range selectsOn(full, bv) {
			pats = append(pats, []*Term{t})
		}
		return []Value{boolV(mkQuant("forall", []*Term{bv}, full, pats...))}
	case "lastpkt", "lastsent":
		g, ok := st.ghost["net."+name]
		if !ok {
			g = namedValue("ghost|net."+name+"0", types.NewSlice(ghostByteT))
			st.assumeValid(g)
			st.ghost["net."+name] = g
		}
		return []Value{g}
	case "lastreadok":
		g, ok := st.ghost["net.lastok"]
		if !ok {
			g = boolV(mkVar("ghost|net.lastok0", sortBool))
			st.ghost["net.lastok"] = g
		}
		return []Value{g}
	case "tlsdone":
		// the TLS handshake of the connection this function works on has completed (set by the models of a successful
		// dial and of a successful read from the stream; arbitrary at function entry)
		return []Value{boolV(tlsDone(st))}
	case "exportlabel", "exportctxlen", "exportctxbyte":
		// uninterpreted attributes of the (fresh) region a TLS exporter call returned; arbitrary for any other slice
		x := ex.eval(call.Args[0], st)
		ref := x.L[".ref"]
		switch name {
		case "exportlabel":
			return []Value{scalarV(types.Typ[types.String], mkApp("tls!exportlabel", sortStr, ref))}
		case "exportctxlen":
			return []Value{scalarV(types.Typ[types.Int], mkApp("tls!exportctxlen", sortInt, ref))}
		}
		i := ex.eval(call.Args[1], st).scalar()
		return []Value{scalarV(types.Typ[types.Int], mkApp("tls!exportctxbyte", sortInt, ref, i))}
	case "lastreadn", "lastreadwant":
		k := "io.lastn"
		if name == "lastreadwant" {
			k = "io.lastwant"
		}
		g, ok := st.ghost[k]
		if !ok {
			g = namedValue("ghost|"+k+"0", types.Typ[types.Int])
			st.assumeValid(g)
			st.ghost[k] = g
		}
		return []Value{g}
	case "lastreadof":
		t := ex.info().TypeOf(call.Args[0])
		k := "bin.last:" + typeKey(t)
		g, ok := st.ghost[k]
		if !ok {
			g = namedValue("ghost|"+k+"0", t)
			st.assumeValid(g)
			st.ghost[k] = g
		}
		return []Value{g}
	case "hastype":
		x := ex.eval(call.Args[0], st)
		tt := ex.info().TypeOf(call.Args[1])
		return []Value{boolV(mkAnd(mkNot(mkEq(x.scalar(), mkInt(sortRef, 0))), mkEq(mkApp("dyntype", sortMath, x.scalar()), mkInt(sortMath, ex.vc.typeID(tt)))))}
	case "refof":
		v := ex.eval(call.Args[0], st)
		r := v.L[""]
		if r == nil {
			r = v.L[".ref"]
		}
		return []Value{scalarV(mathintType, r)}
	case "visited":
		k := ex.eval(call.Args[0], st).scalar()
		vv, ok := ex.frame().entry["visited"]
		if !ok {
			unsupp("visited() outside a map range loop invariant")
		}
		return []Value{boolV(mkSelect(vv.scalar(), k))}
	case "sealed", "opened":
		// the last AEAD seal / open on this path happened and (open) returned no error
		key := map[string]string{"sealed": "aead.seal.ok", "opened": "aead.open.ok"}[name]
		if g, ok := st.ghost[key]; ok {
			return []Value{boolV(g.scalar())}
		}
		return []Value{boolV(tFalse)}
	case "lastSealAD", "lastSealPT", "lastOpenAD", "lastOpenNonce", "lastOpenCT":
		key := map[string]string{"lastSealAD": "aead.seal.ad", "lastSealPT": "aead.seal.pt", "lastOpenAD": "aead.open.ad", "lastOpenNonce": "aead.open.nonce", "lastOpenCT": "aead.open.ct"}[name]
		g, ok := st.ghost[key]
		if !ok {
			// no such operation on this path: an unconstrained slice (clauses should be guarded by sealed()/opened())
			g = freshValue("noaead", types.NewSlice(types.Typ[types.Uint8]))
		}
		g.T = types.NewSlice(types.Typ[types.Uint8])
		return []Value{g}
	case "lastSealKey", "lastOpenKey":
		key := "aead.seal.aead"
		if name == "lastOpenKey" {
			key = "aead.open.aead"
		}
		g, ok := st.ghost[key]
		var a *Term
		if ok {
			a = g.scalar()
		} else {
			a = freshVar("noaead", sortRef)
		}
		n := mkApp("aead!keylen", sortInt, a)
		return []Value{{T: types.NewSlice(types.Typ[types.Uint8]), L: map[string]*Term{".ref": mkApp("aead!keyref", sortRef, a), ".off": mkApp("aead!keyoff", sortInt, a), ".len": n, ".cap": mkApp("aead!keycap", sortInt, a)}}}
	case "calls":
		tv := ex.info().Types[call.Args[0]]
		if tv.Value == nil {
			unsupp("calls(): constant string expected")
		}
		return []Value{ex.callsCounter(st, constant.StringVal(tv.Value))}
	case "iter":
		if len(ex.rangeIdx) == 0 {
			unsupp("iter() outside a range loop")
		}
		v, ok := st.env[ex.rangeIdx[len(ex.rangeIdx)-1]]
		if !ok {
			unsupp("iter(): index not bound")
		}
		return []Value{v}
	case "lastnow":
		return []Value{ex.lastNow(st)}
	case "floordiv", "floormod":
		a := ex.eval(call.Args[0], st).scalar()
		b := ex.eval(call.Args[1], st).scalar()
		op := "fldiv"
		if name == "floormod" {
			op = "flmod"
		}
		return []Value{scalarV(mathintType, mkArith(op, a, b))}
	case "unixns":
		t := ex.eval(call.Args[0], st)
		return []Value{scalarV(mathintType, timeNS(t))}
	case "fresh":
		v := ex.eval(call.Args[0], st)
		r := v.L[""]
		if r == nil {
			r = v.L[".ref"]
		}
		if ex.oldSt == nil {
			unsupp("fresh() outside a two-state context")
		}
		return []Value{boolV(mkCmp("lt", ex.oldSt.alloc, r))}
	case "inmap":
		m := ex.eval(call.Args[0], st)
		mt := m.T.Underlying().(*types.Map)
		k := ex.convertTo(ex.eval(call.Args[1], st), mt.Key(), st).scalar()
		return []Value{boolV(mkAnd(mkNot(mkEq(m.scalar(), mkInt(sortRef, 0))), st.mapHas(m.T, m.scalar(), k)))}
	case "same":
		a := ex.eval(call.Args[0], st)
		b := ex.eval(call.Args[1], st)
		var cs []*Term
		for _, pth := range a.paths() {
			x, y := a.L[pth], b.L[pth]
			if y == nil {
				unsupp("same(): shapes differ")
			}
			if x.Sort.K == SArray {
				n := arrayLenAt(a.T, pth)
				if n < 0 || n > 64 {
					unsupp("same() on large arrays")
				}
				for i := int64(0); i < n; i++ {
					ix := mkInt(sortInt, i)
					cs = append(cs, mkEq(mkSelect(x, ix), mkSelect(y, ix)))
				}
				continue
			}
			cs = append(cs, mkEq(x, y))
		}
		return []Value{boolV(mkAnd(cs...))}
	case "sameslice":
		a := ex.eval(call.Args[0], st)
		b := ex.eval(call.Args[1], st)
		return []Value{boolV(mkAnd(mkEq(a.L[".ref"], b.L[".ref"]), mkEq(a.L[".off"], b.L[".off"]), mkEq(a.L[".len"], b.L[".len"]), mkEq(a.L[".cap"], b.L[".cap"])))}
	case "capof", "lenof":
		a := ex.eval(call.Args[0], st)
		return []Value{scalarV(types.Typ[types.Int], a.L["."+strings.TrimSuffix(name, "of")])}
	case "regionof":
		a := ex.eval(call.Args[0], st)
		return []Value{scalarV(mathintType, a.L[".ref"])}
	case "offsetof":
		a := ex.eval(call.Args[0], st)
		return []Value{scalarV(types.Typ[types.Int], a.L[".off"])}
	case "f64":
		v := ex.eval(call.Args[0], st)
		return []Value{scalarV(types.Typ[types.Float64], mkConv(v.scalar(), sortFP))}
	case "isfinite":
		v := ex.eval(call.Args[0], st).scalar()
		return []Value{boolV(mkAnd(mkNot(mk("fisnan", sortBool, v)), mkNot(mk("fisinf", sortBool, v))))}
	}
	if h, ok := specFuncs[name]; ok {
		return h(ex, call, st)
	}
	unsupp("specification function %s", name)
	return nil
}

var specFuncs = map[string]func(ex *Exec, call *ast.CallExpr, st *State) []Value{}

// permutation(a, b): slices a and b have the same length and a is a rearrangement of b.
// When proved, the witness is the bijection of the most recent sort on the path; when assumed
// (callee postcondition at a call site) a fresh bijection is introduced.
func init() {
	specFuncs["permutation"] = func(ex *Exec, call *ast.CallExpr, st *State) []Value {
		a := ex.eval(call.Args[0], st)
		b := ex.eval(call.Args[1], st)
		// b is normally old(a): its contents live in the old heap
		bst := st
		if c, ok := ast.Unparen(call.Args[1]).(*ast.CallExpr); ok {
			if id, ok := c.Fun.(*ast.Ident); ok && id.Name == "old" && ex.oldSt != nil {
				bst = ex.oldSt
			}
		}
		et := a.T.Underlying().(*types.Slice).Elem()
		var id string
		if ex.assuming > 0 {
			freshCounter["perm"]++
			id = itoa(freshCounter["perm"])
		} else {
			g, ok := st.ghost["lastperm"]
			if !ok {
				return []Value{boolV(tFalse)}
			}
			id = g.scalar().Val.String()
		}
		n := a.L[".len"]
		cs := []*Term{mkEq(a.L[".len"], b.L[".len"])}
		cs = append(cs, permAxioms(id, n)...)
		for _, l := range leavesOf(et) {
			na := st.regionArr(et, l, a.L[".ref"])
			ob := bst.regionArr(et, l, b.L[".ref"])
			cs = append(cs, permutedFact(id, na, ob, a.L[".off"], b.L[".off"], n))
		}
		return []Value{boolV(mkAnd(cs...))}
	}
}

// findIndexOffset looks for array reads at index (off + bv) and returns off (nil if none or not a plain variable/constant).
func findIndexOffset(t *Term, bv *Term) *Term {
	var found *Term
	seen := map[*Term]bool{}
	var rec func(t *Term)
	rec = func(t *Term) {
		if seen[t] || found != nil {
			return
		}
		seen[t] = true
		if t.Op == "select" {
			ix := t.Args[1]
			if ix.Op == "iadd" && ix.Args[1] == bv && !mentions(ix.Args[0], bv) && closedUnder(ix.Args[0]) {
				found = ix.Args[0]
				return
			}
		}
		for _, a := range t.Args {
			rec(a)
		}
	}
	rec(t)
	return found
}

// selectsOn returns the array reads whose index is exactly the bound variable (pattern candidates), outermost quantifier only.
func selectsOn(t *Term, bv *Term) []*Term {
	var out []*Term
	seenKey := map[string]bool{}
	seen := map[*Term]bool{}
	var rec func(t *Term)
	rec = func(t *Term) {
		if seen[t] {
			return
		}
		seen[t] = true
		if t.Op == "select" && t.Args[1] == bv && !mentions(t.Args[0], bv) {
			k := t.Args[0].String()
			if !seenKey[k] && closedUnder(t.Args[0]) {
				seenKey[k] = true
				out = append(out, t)
			}
		}
		for _, a := range t.Args {
			rec(a)
		}
	}
	rec(t)
	return out
}

func mentions(t *Term, v *Term) bool {
	if t == v {
		return true
	}
	for _, a := range t.Args {
		if mentions(a, v) {
			return true
		}
	}
	return false
}

// closedUnder: the term mentions no variable bound by an enclosing inner quantifier (approximation: no bound-looking names)
func closedUnder(t *Term) bool {
	if t.Op == "forall" || t.Op == "exists" {
		return false
	}
	for _, a := range t.Args {
		if !closedUnder(a) {
			return false
		}
	}
	return true
}

// sideFacts: the facts learned while evaluating the body of a quantifier become hypotheses of the quantified goal.
// Only those that say something about the bound variable are kept (dropping a hypothesis makes the goal stronger).
func sideFacts(fs []*Term, bv *Term) []*Term {
	var out []*Term
	for _, f := range fs {
		c := f
		for c.Op == "=>" {
			c = c.Args[1]
		}
		if mentions(c, bv) {
			out = append(out, f)
		}
	}
	return out
}
