package main

import (
	"fmt"
	"go/ast"
	"go/constant"
	"go/token"
	"go/types"
	"strings"
)

const maxInlineDepth = 6

func (ex *Exec) pushFrame(f *Frame, st *State) {
	ex.frames = append(ex.frames, f)
	st.defers = append(st.defers, nil)
}

func (ex *Exec) popFrame() { ex.frames = ex.frames[:len(ex.frames)-1] }

// finishFrame merges the return states of the top frame into st and returns the result values.
func (ex *Exec) finishFrame(f *Frame, st *State, base int) []Value {
	var states []*State
	for _, r := range f.returns {
		states = append(states, r.st)
	}
	nres := f.sig.Results().Len()
	if len(states) == 0 {
		st.dead = true
		return make([]Value, nres)
	}
	// merge result values alongside the states: stash them in env under synthetic objects
	robjs := make([]types.Object, nres)
	for i := 0; i < nres; i++ {
		robjs[i] = types.NewVar(token.NoPos, nil, fmt.Sprintf("ret!%d", i), f.sig.Results().At(i).Type())
	}
	for _, r := range f.returns {
		for i := 0; i < nres; i++ {
			r.st.env[robjs[i]] = r.vals[i]
		}
	}
	m := mergeStates(base, states)
	st.become(m)
	if st.dead {
		return make([]Value, nres)
	}
	out := make([]Value, nres)
	for i := 0; i < nres; i++ {
		out[i] = st.env[robjs[i]]
		delete(st.env, robjs[i])
	}
	st.defers = st.defers[:len(st.defers)-1]
	return out
}

func (ex *Exec) bindParams(sig *types.Signature, ft *ast.FuncType, recvList *ast.FieldList, info *types.Info, recv *Value, args []Value, st *State) []types.Object {
	if recvList != nil && len(recvList.List) > 0 && recv != nil {
		for _, n := range recvList.List[0].Names {
			if o := info.Defs[n]; o != nil {
				st.env[o] = *recv
			}
		}
	}
	i := 0
	for _, fld := range ft.Params.List {
		if len(fld.Names) == 0 {
			i++
			continue
		}
		for _, n := range fld.Names {
			if o := info.Defs[n]; o != nil && n.Name != "_" {
				st.env[o] = args[i]
			}
			i++
		}
	}
	var results []types.Object
	if ft.Results != nil {
		named := false
		for _, fld := range ft.Results.List {
			if len(fld.Names) > 0 {
				named = true
			}
		}
		if named {
			for _, fld := range ft.Results.List {
				for _, n := range fld.Names {
					o := info.Defs[n]
					results = append(results, o)
					if o != nil {
						st.env[o] = zeroValue(o.Type())
					}
				}
			}
		}
	}
	return results
}

// callLit executes a function literal in the current environment (closures share variables).
func (ex *Exec) callLit(fv *FuncVal, args []Value, st *State, call ast.Node) []Value {
	if len(ex.frames) > maxInlineDepth+4 {
		unsupp("function literal nesting too deep")
	}
	sig := fv.Info.TypeOf(fv.Lit).(*types.Signature)
	f := &Frame{info: fv.Info, pkg: fv.Pkg, sig: sig, lit: true, entry: ex.frame().entry, oldSt: ex.frame().oldSt, fn: ex.frame().fn}
	base := len(st.pc)
	before := envKeys(st)
	defer dropNewBindings(st, before)
	ex.pushFrame(f, st)
	f.results = ex.bindParams(sig, fv.Lit.Type, nil, fv.Info, nil, args, st)
	ex.execBlock(fv.Lit.Body.List, st)
	if !st.dead {
		if sig.Results().Len() > 0 && f.results == nil {
			st.dead = true // missing return is impossible in well-typed code
		} else {
			var vals []Value
			for _, o := range f.results {
				vals = append(vals, st.env[o])
			}
			ex.doReturn(st, vals)
		}
	}
	ex.popFrame()
	return ex.finishFrame(f, st, base)
}

// callFunc: a function declared in the repository.
func (ex *Exec) callFunc(fi *FuncInfo, recv *Value, args []Value, st *State, call ast.Node) []Value {
	if fi == nil {
		unsupp("call of unknown function")
	}
	if fi.Con != nil && !fi.Con.Inline && ex.spec == 0 {
		return ex.callModular(fi, recv, args, st, call)
	}
	return ex.callInline(fi, recv, args, st, call)
}

func (ex *Exec) callInline(fi *FuncInfo, recv *Value, args []Value, st *State, call ast.Node) []Value {
	for _, f := range ex.frames {
		if f.fn == fi && !f.lit && f != ex.frames[0] || (f.fn == fi && len(ex.frames) > 1 && f == ex.frames[0] && ex.spec == 0) {
			unsupp("recursive call of %s", fi.Short)
		}
	}
	if len(ex.frames) > maxInlineDepth {
		unsupp("inline depth exceeded at %s", fi.Short)
	}
	if fi.Decl.Body == nil {
		unsupp("no body for %s", fi.Short)
	}
	sig := fi.Obj.Type().(*types.Signature)
	f := &Frame{fn: fi, info: fi.Pkg.TypesInfo, pkg: fi.Pkg.Types, sig: sig, entry: map[string]Value{}}
	base := len(st.pc)
	before := envKeys(st)
	defer dropNewBindings(st, before)
	ex.pushFrame(f, st)
	f.results = ex.bindParams(sig, fi.Decl.Type, fi.Decl.Recv, fi.Pkg.TypesInfo, recv, args, st)
	f.oldSt = st.clone()
	ex.execBlock(fi.Decl.Body.List, st)
	if !st.dead {
		var vals []Value
		for _, o := range f.results {
			vals = append(vals, st.env[o])
		}
		if sig.Results().Len() > 0 && f.results == nil {
			st.dead = true
		} else {
			ex.doReturn(st, vals)
		}
	}
	ex.popFrame()
	return ex.finishFrame(f, st, base)
}

// callModular: assert requires, havoc modifies, assume ensures.
func (ex *Exec) callModular(fi *FuncInfo, recv *Value, args []Value, st *State, call ast.Node) []Value {
	con := fi.Con
	sig := fi.Obj.Type().(*types.Signature)
	bind := ex.paramBindings(fi, recv, args)
	// copy-in for static interior pointers
	type copyBack struct {
		lv  *LValue
		t   types.Type
		ref *Term
	}
	var backs []copyBack
	for _, name := range sortedKeys(bind) {
		v := bind[name]
		if v.Loc != nil {
			pt := v.T.Underlying().(*types.Pointer)
			ref := st.newRef()
			st.writeObj(pt.Elem(), ref, st.readLV(v.Loc))
			bind[name] = scalarV(v.T, ref)
			backs = append(backs, copyBack{v.Loc, pt.Elem(), ref})
		}
	}
	pre := st.clone()
	site := fi.Short
	// named entry values of the callee's contract
	for _, e := range con.Entries {
		bind[e.Name] = ex.evalClauseIn(e, pre, pre, bind)
	}
	for i, c := range con.Requires {
		if c.LockInv {
			continue
		}
		g := ex.evalClause(c, st, pre, bind)
		ex.check(st, g, "requires", call, fmt.Sprintf("call:%s/requires#%d", site, i))
	}
	if f0 := ex.frames[0]; f0.fn == fi {
		// recursion: sound only with a measure that strictly decreases and stays non-negative
		if con.Measure == nil {
			ex.check(st, tFalse, "termination:recursion", call, "recursive call without a decreases clause")
		} else {
			mc := ex.evalClauseIn(con.Measure, pre, pre, bind).scalar()
			me := ex.evalClauseIn(con.Measure, f0.oldSt, f0.oldSt, f0.bind).scalar()
			ex.check(st, mkAnd(mkCmp("le", mkInt(mc.Sort, 0), mc), mkCmp("lt", mc, me)), "termination:recursion", call, "measure")
		}
	}
	for i, c := range con.PanicsWhen {
		g := ex.evalClause(c, st, pre, bind)
		ex.check(st, mkNot(g), "callee-panics", call, fmt.Sprintf("call:%s/panics#%d", site, i))
	}
	// frame of the callee must be within the caller's frame
	for _, m := range con.Modifies {
		ex.havocModifies(fi, m, st, pre, bind, call)
	}
	if !con.checkFrame && !con.Trusted && len(con.Modifies) == 0 {
		// the callee's frame is neither stated nor checked: everything reachable from its arguments may change
		ex.note("callee without a checked frame: havoc of everything reachable from its arguments: " + fi.Short)
		if recv != nil {
			ex.havocReachable(*recv, st)
		}
		for _, a := range args {
			ex.havocReachable(a, st)
		}
	}
	if con.readsClock {
		ex.advanceClock(st)
	}
	if con.seals {
		havocAEADTrace(st, "seal")
	}
	if con.opens {
		havocAEADTrace(st, "open")
	}
	if con.allocates {
		na := freshVar("alloc", sortMath)
		st.assume(mkCmp("le", st.alloc, na))
		// returned references may be fresh
		st.alloc = na
	}
	// results
	var res []Value
	for i := 0; i < sig.Results().Len(); i++ {
		v := freshValue(fi.Obj.Name()+"!res", sig.Results().At(i).Type())
		st.assumeValid(v)
		res = append(res, v)
	}
	ex.bindResults(fi, bind, res)
	ex.assuming++
	for _, c := range con.Ensures {
		if c.LockInv {
			continue
		}
		st.assume(ex.evalClause(c, st, pre, bind))
	}
	ex.assuming--
	for _, b := range backs {
		ex.assign(b.lv, st.readObj(b.t, b.ref), st, call)
	}
	return res
}

func (ex *Exec) paramBindings(fi *FuncInfo, recv *Value, args []Value) map[string]Value {
	bind := map[string]Value{}
	if fi.Decl.Recv != nil && recv != nil {
		for _, n := range fi.Decl.Recv.List[0].Names {
			bind[n.Name] = *recv
		}
	}
	i := 0
	for _, fld := range fi.Decl.Type.Params.List {
		if len(fld.Names) == 0 {
			i++
			continue
		}
		for _, n := range fld.Names {
			if i < len(args) {
				bind[n.Name] = args[i]
			}
			i++
		}
	}
	return bind
}

func (ex *Exec) bindResults(fi *FuncInfo, bind map[string]Value, res []Value) {
	i := 0
	if fi.Decl.Type.Results != nil {
		for _, fld := range fi.Decl.Type.Results.List {
			if len(fld.Names) == 0 {
				i++
				continue
			}
			for _, n := range fld.Names {
				if i < len(res) {
					bind[n.Name] = res[i]
				}
				i++
			}
		}
	}
	if len(res) == 1 {
		bind["result"] = res[0]
	}
	for j, r := range res {
		bind[fmt.Sprintf("result%d", j)] = r
	}
}

// havocModifies forgets the locations named by a modifies clause (evaluated in the pre-state).
func (ex *Exec) havocModifies(fi *FuncInfo, m *Clause, st, pre *State, bind map[string]Value, n ast.Node) {
	locs := ex.modLocs(fi, m, pre, bind)
	for _, l := range locs {
		switch l.kind {
		case "obj":
			if len(ex.frames) > 0 && ex.spec == 0 {
				ex.frameCheckObj(l.t, l.ref, l.prefix, st, n)
			}
			for _, lf := range leavesOf(l.t) {
				if !strings.HasPrefix(lf.Path, l.prefix) {
					continue
				}
				k := objKey(l.t, lf.Path)
				st.heap[k] = mkStore(st.heapGet(k, objSort(lf)), l.ref, freshVar("mod"+lf.Path, lf.Sort))
			}
			v := st.readObj(l.t, l.ref)
			_ = v
		case "region":
			if len(ex.frames) > 0 && ex.spec == 0 {
				ex.frameCheckRegion(l.t, l.ref, st, n)
			}
			for _, lf := range leavesOf(l.t) {
				st.setRegionArr(l.t, lf, l.ref, freshVar("modreg"+lf.Path, arraySort(sortInt, lf.Sort)))
			}
		case "map":
			st.havocFamily("M|" + typeKey(l.t) + "|")
			ex.note("modifies on a map havocs all maps of that type")
		case "family":
			for _, lf := range leavesOf(l.t) {
				if strings.HasPrefix(lf.Path, l.prefix) {
					st.havocFamily(objKey(l.t, lf.Path))
				}
			}
		case "global":
			nv := freshValue("G|"+l.name, l.t)
			st.glob[l.name] = nv
			st.assumeValid(nv)
		}
	}
}

type modLoc struct {
	kind   string
	t      types.Type
	ref    *Term
	prefix string
	name   string
}

func (ex *Exec) modLocs(fi *FuncInfo, m *Clause, pre *State, bind map[string]Value) []modLoc {
	ex.vc.compileClause(fi, m)
	var out []modLoc
	ex.withClauseFrame(m, pre, pre, bind, func(st *State) {
		for _, e := range m.Exprs {
			out = append(out, ex.modLoc(e, st)...)
		}
	})
	return out
}

func (ex *Exec) modLoc(e ast.Expr, st *State) []modLoc {
	info := ex.info()
	switch x := e.(type) {
	case *ast.ParenExpr:
		return ex.modLoc(x.X, st)
	case *ast.CallExpr:
		if id, ok := x.Fun.(*ast.Ident); ok && id.Name == "every" && len(x.Args) == 1 {
			// every(p.f): field f of every object of p's type
			var out []modLoc
			for _, l := range ex.modLoc(x.Args[0], st) {
				if l.kind != "obj" {
					unsupp("every(): %s is not a field of a heap object", ex.src(x.Args[0]))
				}
				out = append(out, modLoc{kind: "family", t: l.t, prefix: l.prefix})
			}
			return out
		}
	case *ast.SliceExpr:
		sv := ex.eval(x.X, st)
		s := sv.T.Underlying().(*types.Slice)
		return []modLoc{{kind: "region", t: s.Elem(), ref: sv.L[".ref"]}}
	case *ast.Ident:
		if v, ok := info.Uses[x].(*types.Var); ok {
			if isPkgLevel(v) {
				out := []modLoc{{kind: "global", t: v.Type(), name: v.Pkg().Path() + "." + v.Name()}}
				if _, ok := v.Type().Underlying().(*types.Map); ok {
					out = append(out, modLoc{kind: "map", t: v.Type()})
				}
				return out
			}
			if _, ok := v.Type().Underlying().(*types.Map); ok {
				return []modLoc{{kind: "map", t: v.Type()}}
			}
		}
	case *ast.SelectorExpr:
		if _, ok := info.Selections[x]; !ok {
			if v, ok := info.Uses[x.Sel].(*types.Var); ok && isPkgLevel(v) {
				return []modLoc{{kind: "global", t: v.Type(), name: v.Pkg().Path() + "." + v.Name()}}
			}
		}
	}
	ex.spec++
	lv := ex.lvalue(e, st)
	ex.spec--
	prefix := ""
	for _, s := range lv.steps {
		if s.idx != nil {
			prefix += "[]"
		} else {
			prefix += s.field
		}
	}
	var extra []modLoc
	if _, isMap := lv.typ().Underlying().(*types.Map); isMap && lv.kind != lvMapElem {
		extra = append(extra, modLoc{kind: "map", t: lv.typ()})
	}
	switch lv.kind {
	case lvObj:
		return append([]modLoc{{kind: "obj", t: lv.rootT, ref: lv.ref, prefix: prefix}}, extra...)
	case lvElem:
		return []modLoc{{kind: "region", t: lv.rootT, ref: lv.ref}}
	case lvGlobal:
		return []modLoc{{kind: "global", t: lv.rootT, name: lv.gname}}
	case lvMapElem:
		return []modLoc{{kind: "map", t: lv.rootT}}
	}
	unsupp("modifies target %s", ex.src(e))
	return nil
}

// ---- frame checks for the function under verification ----

func (ex *Exec) topFrameLocs(st *State) ([]modLoc, bool) {
	f0 := ex.frames[0]
	if f0.fn == nil || f0.fn.Con == nil || !f0.fn.Con.checkFrame {
		return nil, false
	}
	if f0.modLocs == nil {
		f0.modLocs = []modLoc{}
		for _, m := range f0.fn.Con.Modifies {
			f0.modLocs = append(f0.modLocs, ex.modLocs(f0.fn, m, f0.oldSt, f0.bind)...)
		}
		// ghost state may always be written
		for _, g := range f0.fn.Con.Ghosts {
			if gv, ok := f0.bind[g.Name]; ok {
				if sl, ok := gv.T.Underlying().(*types.Slice); ok {
					f0.modLocs = append(f0.modLocs, modLoc{kind: "region", t: sl.Elem(), ref: gv.L[".ref"]})
				}
			}
		}
	}
	return f0.modLocs, true
}

func (ex *Exec) frameCheck(lv *LValue, st *State, n ast.Node) {
	if ex.spec > 0 {
		return
	}
	switch lv.kind {
	case lvObj:
		prefix := ""
		for _, s := range lv.steps {
			if s.idx != nil {
				prefix += "[]"
			} else {
				prefix += s.field
			}
		}
		ex.frameCheckObj(lv.rootT, lv.ref, prefix, st, n)
	case lvElem:
		ex.frameCheckRegion(lv.rootT, lv.ref, st, n)
	case lvGlobal:
		locs, ok := ex.topFrameLocs(st)
		if !ok {
			return
		}
		for _, l := range locs {
			if l.kind == "global" && l.name == lv.gname {
				return
			}
		}
		ex.check(st, tFalse, "frame", n, "global "+lv.gname)
	case lvMapElem:
		locs, ok := ex.topFrameLocs(st)
		if !ok {
			return
		}
		for _, l := range locs {
			if l.kind == "map" && typeKey(l.t) == typeKey(lv.rootT) {
				return
			}
		}
		ex.check(st, mkCmp("lt", st.alloc0, lv.ref), "frame", n, "map "+typeKey(lv.rootT))
	}
}

func (ex *Exec) frameCheckObj(t types.Type, ref *Term, prefix string, st *State, n ast.Node) {
	locs, ok := ex.topFrameLocs(st)
	if !ok {
		return
	}
	allowed := []*Term{mkCmp("lt", st.alloc0, ref)} // fresh objects may be written freely
	for _, l := range locs {
		if l.kind == "obj" && typeKey(l.t) == typeKey(t) && (strings.HasPrefix(prefix, l.prefix)) {
			allowed = append(allowed, mkEq(ref, l.ref))
		}
		if l.kind == "family" && typeKey(l.t) == typeKey(t) && (strings.HasPrefix(prefix, l.prefix)) {
			return
		}
	}
	ex.check(st, mkOr(allowed...), "frame", n, "")
}

func (ex *Exec) frameCheckRegion(t types.Type, ref *Term, st *State, n ast.Node) {
	locs, ok := ex.topFrameLocs(st)
	if !ok {
		return
	}
	// a nil slice has no region: nothing can be written through it
	allowed := []*Term{mkCmp("lt", st.alloc0, ref), mkEq(ref, mkInt(sortRef, 0))}
	for _, l := range locs {
		if l.kind == "region" && typeKey(l.t) == typeKey(t) {
			allowed = append(allowed, mkEq(ref, l.ref))
		}
	}
	ex.check(st, mkOr(allowed...), "frame", n, "")
}

// ---- unknown / external calls ----

var pureExternalPrefixes = []string{
	"log/slog", "fmt", "errors", "strconv", "encoding/hex", "github.com/prometheus/", "example.com/scion-time/base/metrics",
	"context", "math", "log", "example.com/scion-time/base/logbase", "unicode", "strings", "net/netip", "github.com/HdrHistogram/",
	"go.uber.org/zap",
}

func isPureExternal(fn *types.Func) bool {
	if fn.Pkg() == nil {
		return true
	}
	switch fn.FullName() {
	case "(*net.UDPAddr).String", "(*net.UDPAddr).AddrPort", "(*net.UDPAddr).Network", "net.ParseIP", "(net.IP).String",
		"(github.com/scionproto/scion/pkg/addr.IA).String", "github.com/scionproto/scion/pkg/addr.HostIP":
		// read-only standard-library / address helpers
		return true
	}
	p := fn.Pkg().Path()
	for _, pre := range pureExternalPrefixes {
		if p == pre || strings.HasPrefix(p, pre) {
			return true
		}
	}
	return false
}

func (ex *Exec) callUnknown(call *ast.CallExpr, sig *types.Signature, recv *Value, args []Value, st *State, name string) []Value {
	var fn *types.Func
	switch f := ast.Unparen(call.Fun).(type) {
	case *ast.Ident:
		fn, _ = ex.info().Uses[f].(*types.Func)
	case *ast.SelectorExpr:
		fn, _ = ex.info().Uses[f.Sel].(*types.Func)
	}
	if fn != nil && fn.Pkg() != nil && fn.Pkg().Path() == "example.com/scion-time/base/logbase" && strings.HasPrefix(fn.Name(), "Fatal") {
		ex.note("logbase.Fatal*: does not return (process exit)")
		st.dead = true
		return make([]Value, sig.Results().Len())
	}
	pure := fn != nil && isPureExternal(fn)
	if pure {
		ex.note("external call assumed to have no effect on tracked state: " + name)
	} else {
		ex.note("uncontracted external call: havoc of objects/regions reachable from its arguments, arbitrary result, assumed not to panic: " + name)
		all := append([]Value{}, args...)
		if recv != nil {
			all = append(all, *recv)
		}
		for _, a := range all {
			ex.havocReachable(a, st)
		}
	}
	var res []Value
	for i := 0; i < sig.Results().Len(); i++ {
		v := freshValue("ext!"+sanitize(name), sig.Results().At(i).Type())
		st.assumeValid(v)
		res = append(res, v)
	}
	return res
}

func (ex *Exec) havocReachable(a Value, st *State) {
	if a.T == nil {
		return
	}
	switch u := a.T.Underlying().(type) {
	case *types.Pointer:
		if a.Loc != nil {
			nv := freshValue("hv", u.Elem())
			st.assumeValid(nv)
			st.writeLV(a.Loc, nv)
			return
		}
		if _, ok := u.Elem().Underlying().(*types.Struct); ok || true {
			defer func() {
				if r := recover(); r != nil {
					if _, ok := r.(unsupported); !ok {
						panic(r)
					}
				}
			}()
			nv := freshValue("hv", u.Elem())
			st.assumeValid(nv)
			st.writeObj(u.Elem(), a.scalar(), nv)
		}
	case *types.Slice:
		for _, lf := range leavesOf(u.Elem()) {
			st.setRegionArr(u.Elem(), lf, a.L[".ref"], freshVar("hvreg"+lf.Path, arraySort(sortInt, lf.Sort)))
		}
	case *types.Map:
		st.havocFamily("M|" + typeKey(a.T) + "|")
	}
}

func (ex *Exec) callInterface(fn *types.Func, recv *Value, args []Value, st *State, call *ast.CallExpr) ([]Value, bool) {
	// contracts on interface methods declared in the repository
	key := funcKey(fn)
	if con := ex.vc.ifaceContracts[key]; con != nil {
		return ex.callIfaceModular(con, fn, recv, args, st, call), true
	}
	return nil, false
}

// ---- builtins ----

func (ex *Exec) evalBuiltin(name string, call *ast.CallExpr, st *State) []Value {
	info := ex.info()
	zero := mkInt(sortInt, 0)
	switch name {
	case "len", "cap":
		x := ex.eval(call.Args[0], st)
		switch u := x.T.Underlying().(type) {
		case *types.Slice:
			return []Value{scalarV(types.Typ[types.Int], x.L["."+name])}
		case *types.Array:
			return []Value{scalarV(types.Typ[types.Int], mkInt(sortInt, u.Len()))}
		case *types.Pointer:
			if a, ok := u.Elem().Underlying().(*types.Array); ok {
				return []Value{scalarV(types.Typ[types.Int], mkInt(sortInt, a.Len()))}
			}
		case *types.Basic:
			n := mkApp("strlen", sortInt, x.scalar())
			st.assume(mkCmp("le", zero, n))
			return []Value{scalarV(types.Typ[types.Int], n)}
		case *types.Map:
			ref := x.scalar()
			n := mkIte(mkEq(ref, mkInt(sortRef, 0)), zero, st.mapLen(x.T, ref))
			st.assume(mkCmp("le", zero, n))
			return []Value{scalarV(types.Typ[types.Int], n)}
		case *types.Chan:
			return []Value{scalarV(types.Typ[types.Int], freshVar("chanlen", sortInt))}
		}
		unsupp("%s of %s", name, x.T)
	case "panic":
		for _, a := range call.Args {
			ex.eval(a, st)
		}
		ex.doPanic(st, call)
		return nil
	case "new":
		t := info.TypeOf(call.Args[0])
		ref := st.newRef()
		st.writeObj(t, ref, zeroValue(t))
		return []Value{scalarV(info.TypeOf(call), ref)}
	case "make":
		t := info.TypeOf(call.Args[0])
		switch u := t.Underlying().(type) {
		case *types.Slice:
			n := ex.evalIndexTerm(call.Args[1], st)
			c := n
			if len(call.Args) > 2 {
				c = ex.evalIndexTerm(call.Args[2], st)
			}
			ex.check(st, mkAnd(mkCmp("le", zero, n), mkCmp("le", n, c)), "safety:make", call, "")
			ref := st.newRef()
			ex.initRegion(st, u.Elem(), ref)
			return []Value{{T: t, L: map[string]*Term{".ref": ref, ".off": zero, ".len": n, ".cap": c}}}
		case *types.Map:
			for _, a := range call.Args[1:] {
				ex.eval(a, st)
			}
			return []Value{ex.makeMap(t, st)}
		case *types.Chan:
			for _, a := range call.Args[1:] {
				ex.eval(a, st)
			}
			return []Value{scalarV(t, st.newRef())}
		}
	case "append":
		return []Value{ex.evalAppend(call, st)}
	case "copy":
		return []Value{ex.evalCopy(call, st)}
	case "delete":
		m := ex.eval(call.Args[0], st)
		mt := m.T.Underlying().(*types.Map)
		k := ex.convertTo(ex.eval(call.Args[1], st), mt.Key(), st).scalar()
		lv := &LValue{kind: lvMapElem, rootT: m.T, ref: m.scalar(), idx: k}
		ex.frameCheck(lv, st, call)
		// delete on a nil map is a no-op
		sub := st.clone()
		sub.mapDelete(m.T, m.scalar(), k)
		isNil := mkEq(m.scalar(), mkInt(sortRef, 0))
		if isNil.isFalse() {
			st.become(sub)
		} else {
			base := len(st.pc)
			sub.decide(mkNot(isNil))
			st.decide(isNil)
			st.become(mergeStates(base, []*State{sub, st.clone()}))
		}
		return nil
	case "min", "max":
		acc := ex.eval(call.Args[0], st)
		for _, a := range call.Args[1:] {
			b := ex.convertTo(ex.eval(a, st), acc.T, st)
			var c *Term
			if name == "min" {
				c = mkCmp("le", acc.scalar(), b.scalar())
			} else {
				c = mkCmp("le", b.scalar(), acc.scalar())
			}
			acc = scalarV(acc.T, mkIte(c, acc.scalar(), b.scalar()))
		}
		rt := info.TypeOf(call)
		return []Value{ex.convertTo(acc, rt, st)}
	case "print", "println":
		for _, a := range call.Args {
			ex.eval(a, st)
		}
		return nil
	case "close":
		ex.eval(call.Args[0], st)
		return nil
	}
	unsupp("builtin %s", name)
	return nil
}

func (ex *Exec) doPanic(st *State, n ast.Node) {
	if ex.spec > 0 {
		// inside a specification a panicking call yields an arbitrary value (never a silently dropped path)
		f := ex.frame()
		if f.sig == nil || f.lit && f.sig == nil {
			st.dead = true
			return
		}
		var vals []Value
		for i := 0; i < f.sig.Results().Len(); i++ {
			v := freshValue("panicked", f.sig.Results().At(i).Type())
			vals = append(vals, v)
		}
		ex.doReturn(st, vals)
		return
	}
	f0 := ex.frames[0]
	if f0.fn != nil && f0.fn.Con != nil && len(f0.fn.Con.MayPanic) > 0 {
		if call, ok := n.(*ast.CallExpr); ok && len(call.Args) == 1 {
			if tv, ok := ex.info().Types[call.Args[0]]; ok && tv.Value != nil && tv.Value.Kind() == constant.String {
				msg := constant.StringVal(tv.Value)
				for _, m := range f0.fn.Con.MayPanic {
					if strings.Trim(m, "\"") == msg {
						ex.note("declared refusal by panic: " + msg)
						st.dead = true
						return
					}
				}
			} else if len(ex.frames) == 1 {
				// panic(<package-level error value>): declared by the value's name
				txt := ex.src(call.Args[0])
				for _, m := range f0.fn.Con.MayPanic {
					if name, ordTxt, has := strings.Cut(m, " #"); has && name == txt {
						// site-specific: the k-th panic(<name>) of the body
						ord, n := -1, 0
						ast.Inspect(f0.fn.Decl.Body, func(x ast.Node) bool {
							if ce, ok := x.(*ast.CallExpr); ok && len(ce.Args) == 1 {
								if id, ok := ce.Fun.(*ast.Ident); ok && id.Name == "panic" && ex.src(ce.Args[0]) == txt {
									if ce == call {
										ord = n
									}
									n++
								}
							}
							return true
						})
						if fmt.Sprint(ord) == strings.TrimSpace(ordTxt) {
							ex.note("declared refusal by panic: " + m)
							st.dead = true
							return
						}
						continue
					}
					if m == txt {
						ex.note("declared refusal by panic: " + txt)
						st.dead = true
						return
					}
				}
			}
		}
	}
	if f0.fn != nil && f0.fn.Con != nil && len(f0.fn.Con.PanicsWhen) > 0 {
		// declared refusal: the panic must be covered by a `panics when` clause (over entry values)
		var cs []*Term
		for _, c := range f0.fn.Con.PanicsWhen {
			cs = append(cs, ex.evalClause(c, f0.oldSt, f0.oldSt, f0.bind))
		}
		ex.check(st, mkOr(cs...), "panic-declared", n, "")
		st.dead = true
		return
	}
	ex.check(st, tFalse, "safety:panic", n, "")
	st.dead = true
}

func (ex *Exec) evalAppend(call *ast.CallExpr, st *State) Value {
	info := ex.info()
	s := ex.eval(call.Args[0], st)
	sl := s.T.Underlying().(*types.Slice)
	et := sl.Elem()
	one := mkInt(sortInt, 1)
	if call.Ellipsis.IsValid() {
		// append(a, b...)
		b := ex.eval(call.Args[1], st)
		var blen *Term
		isStr := false
		if _, ok := b.T.Underlying().(*types.Basic); ok {
			blen = mkApp("strlen", sortInt, b.scalar())
			isStr = true
		} else {
			blen = b.L[".len"]
		}
		newLen := mkArith("add", s.L[".len"], blen)
		fits := mkCmp("le", newLen, s.L[".cap"])
		// in place
		base := len(st.pc)
		inpl := st.clone()
		inpl.decide(fits)
		if !isStr {
			ex.copyRange(inpl, et, s.L[".ref"], idxAdd(s.L[".off"], s.L[".len"]), b.L[".ref"], b.L[".off"], blen)
		} else {
			ex.havocRange(inpl, et, s.L[".ref"])
		}
		inplV := Value{T: s.T, L: map[string]*Term{".ref": s.L[".ref"], ".off": s.L[".off"], ".len": newLen, ".cap": s.L[".cap"]}}
		grow := st.clone()
		grow.decide(mkNot(fits))
		ref := grow.newRef()
		ncap := freshVar("newcap", sortInt)
		grow.assume(mkCmp("le", newLen, ncap))
		grow.assume(mkCmp("le", ncap, mkInt(sortInt, 1<<40)))
		ex.initRegion(grow, et, ref)
		ex.copyRange(grow, et, ref, mkInt(sortInt, 0), s.L[".ref"], s.L[".off"], s.L[".len"])
		if !isStr {
			ex.copyRange(grow, et, ref, s.L[".len"], b.L[".ref"], b.L[".off"], blen)
		} else {
			ex.havocRange(grow, et, ref)
		}
		growV := Value{T: s.T, L: map[string]*Term{".ref": ref, ".off": mkInt(sortInt, 0), ".len": newLen, ".cap": ncap}}
		tmp := types.NewVar(token.NoPos, nil, "append!", s.T)
		inpl.env[tmp] = inplV
		grow.env[tmp] = growV
		st.become(mergeStates(base, []*State{inpl, grow}))
		r := st.env[tmp]
		delete(st.env, tmp)
		r.T = info.TypeOf(call)
		return r
	}
	var elems []Value
	for _, a := range call.Args[1:] {
		elems = append(elems, ex.convertTo(ex.evalIn(a, et, st), et, st))
	}
	if len(elems) == 0 {
		return s
	}
	n := mkInt(sortInt, int64(len(elems)))
	newLen := mkArith("add", s.L[".len"], n)
	fits := mkCmp("le", newLen, s.L[".cap"])
	base := len(st.pc)
	inpl := st.clone()
	inpl.decide(fits)
	if !inpl.dead {
		for i, e := range elems {
			lv := &LValue{kind: lvElem, rootT: et, ref: s.L[".ref"], idx: mkArith("add", idxAdd(s.L[".off"], s.L[".len"]), mkInt(sortInt, int64(i)))}
			ex.frameCheck(lv, inpl, call)
			inpl.writeLV(lv, e)
		}
	}
	inplV := Value{T: s.T, L: map[string]*Term{".ref": s.L[".ref"], ".off": s.L[".off"], ".len": newLen, ".cap": s.L[".cap"]}}
	grow := st.clone()
	grow.decide(mkNot(fits))
	var growV Value
	if !grow.dead {
		ref := grow.newRef()
		ncap := freshVar("newcap", sortInt)
		grow.assume(mkCmp("le", newLen, ncap))
		grow.assume(mkCmp("le", ncap, mkInt(sortInt, 1<<40)))
		ex.initRegion(grow, et, ref)
		ex.copyRange(grow, et, ref, mkInt(sortInt, 0), s.L[".ref"], s.L[".off"], s.L[".len"])
		for i, e := range elems {
			grow.writeElem(et, ref, mkArith("add", s.L[".len"], mkInt(sortInt, int64(i))), e)
		}
		growV = Value{T: s.T, L: map[string]*Term{".ref": ref, ".off": mkInt(sortInt, 0), ".len": newLen, ".cap": ncap}}
	} else {
		growV = inplV
	}
	_ = one
	tmp := types.NewVar(token.NoPos, nil, "append!", s.T)
	inpl.env[tmp] = inplV
	grow.env[tmp] = growV
	st.become(mergeStates(base, []*State{inpl, grow}))
	r := st.env[tmp]
	delete(st.env, tmp)
	r.T = info.TypeOf(call)
	return r
}

// copyRange: dst[doff+i] = src[soff+i] for 0 <= i < n   (memmove semantics: source read before writing)
func (ex *Exec) copyRange(st *State, et types.Type, dref, doff, sref, soff, n *Term) {
	if n.isConst() && n.Val.Sign() == 0 {
		return
	}
	for _, l := range leavesOf(et) {
		src := st.regionArr(et, l, sref)
		dst := st.regionArr(et, l, dref)
		if n.isConst() && n.Val.IsInt64() && n.Val.Int64() <= 16 {
			acc := dst
			for i := int64(0); i < n.Val.Int64(); i++ {
				k := mkInt(sortInt, i)
				acc = mkStore(acc, idxAdd(doff, k), mkSelect(src, idxAdd(soff, k)))
			}
			st.setRegionArr(et, l, dref, acc)
			continue
		}
		nd := freshVar("copied"+l.Path, dst.Sort)
		j := freshVar("j", sortInt)
		inside := mkAnd(mkCmp("le", doff, j), mkCmp("lt", j, idxAdd(doff, n)))
		body := mkEq(mkSelect(nd, j), mkIte(inside, mkSelect(src, idxAdd(soff, idxSub(j, doff))), mkSelect(dst, j)))
		st.assume(mkQuant("forall", []*Term{j}, body, []*Term{mkSelect(nd, j)}))
		st.setRegionArr(et, l, dref, nd)
	}
}

func (ex *Exec) havocRange(st *State, et types.Type, ref *Term) {
	for _, l := range leavesOf(et) {
		st.setRegionArr(et, l, ref, freshVar("hvreg"+l.Path, arraySort(sortInt, l.Sort)))
	}
}

func (ex *Exec) evalCopy(call *ast.CallExpr, st *State) Value {
	dst := ex.eval(call.Args[0], st)
	src := ex.eval(call.Args[1], st)
	dl := dst.L[".len"]
	et := dst.T.Underlying().(*types.Slice).Elem()
	var sl *Term
	isStr := false
	if _, ok := src.T.Underlying().(*types.Basic); ok {
		sl = mkApp("strlen", sortInt, src.scalar())
		st.assume(mkCmp("le", mkInt(sortInt, 0), sl))
		isStr = true
	} else {
		sl = src.L[".len"]
	}
	n := mkIte(mkCmp("le", dl, sl), dl, sl)
	lv := &LValue{kind: lvElem, rootT: et, ref: dst.L[".ref"], idx: dst.L[".off"]}
	// copying zero elements writes nothing
	if !(n.isConst() && n.Val.Sign() == 0) {
		sub := st.clone()
		sub.assume(mkCmp("lt", mkInt(sortInt, 0), n))
		ex.frameCheck(lv, sub, call)
	}
	if isStr {
		ex.havocRange(st, et, dst.L[".ref"])
		ex.note("copy from a string: destination bytes become arbitrary")
	} else {
		ex.copyRange(st, et, dst.L[".ref"], dst.L[".off"], src.L[".ref"], src.L[".off"], n)
	}
	return scalarV(types.Typ[types.Int], n)
}

// reinterpretPtr models (*T)(unsafe.Pointer(&b[i])) as a little-endian view onto a byte region.
func (ex *Exec) reinterpretPtr(x Value, t types.Type, st *State, n ast.Node) Value {
	if x.Loc == nil || x.Loc.kind != lvElem || len(x.Loc.steps) != 0 {
		unsupp("unsafe pointer conversion of a non-slice-element pointer")
	}
	ex.note("unsafe.Pointer cast: little-endian byte-level view of the slice region (linux/amd64 layout), alignment not modelled")
	pt := t.Underlying().(*types.Pointer)
	v := ex.loadLE(st, x.Loc.ref, x.Loc.idx, pt.Elem(), n)
	// the view is read-only: materialise as a fresh local cell
	tmp := types.NewVar(token.NoPos, nil, "view!", pt.Elem())
	st.env[tmp] = v
	return Value{T: t, L: map[string]*Term{"": freshVar("viewptr", sortRef)}, Loc: &LValue{kind: lvVar, obj: tmp, rootT: pt.Elem()}}
}

var stdSizes = types.SizesFor("gc", "amd64")

func (ex *Exec) loadLE(st *State, ref, base *Term, t types.Type, n ast.Node) Value {
	bt := types.Typ[types.Byte]
	lf := leavesOf(bt)[0]
	arr := st.regionArr(bt, lf, ref)
	var load func(t types.Type, off int64) Value
	load = func(t types.Type, off int64) Value {
		switch u := t.Underlying().(type) {
		case *types.Basic:
			s := basicSort(u)
			if s.K != SGoInt {
				unsupp("unsafe view of %s", t)
			}
			nb := s.W / 8
			us := goInt(s.W, false)
			acc := mkInt(us, 0)
			for i := 0; i < nb; i++ {
				b := mkSelect(arr, idxAdd(base, mkInt(sortInt, off+int64(i))))
				acc = mkArith("bor", acc, mkShift("shl", mkConv(b, us), mkInt(us, int64(8*i))))
			}
			return scalarV(t, mkConv(acc, s))
		case *types.Struct:
			v := Value{T: t, L: map[string]*Term{}}
			var flds []*types.Var
			for i := 0; i < u.NumFields(); i++ {
				flds = append(flds, u.Field(i))
			}
			offs := stdSizes.Offsetsof(flds)
			for i, f := range flds {
				fv := load(f.Type(), off+offs[i])
				for _, p := range sortedKeys(fv.L) {
					x := fv.L[p]
					_ = x
					v.L["."+f.Name()+p] = x
				}
			}
			return v
		case *types.Array:
			v := zeroValue(t)
			esz := stdSizes.Sizeof(u.Elem())
			for i := int64(0); i < u.Len(); i++ {
				v = v.withIndex(mkInt(sortInt, i), load(u.Elem(), off+i*esz))
			}
			return v
		}
		unsupp("unsafe view of %s", t)
		return Value{}
	}
	return load(t, 0)
}

func envKeys(st *State) map[types.Object]bool {
	m := make(map[types.Object]bool, len(st.env))
	for k := range st.env {
		m[k] = true
	}
	return m
}

// dropNewBindings removes the callee's parameters and locals after an inlined call (lexical scoping).
func dropNewBindings(st *State, before map[types.Object]bool) {
	for k := range st.env {
		if !before[k] {
			delete(st.env, k)
		}
	}
}

// callCallback: a call of a function-typed parameter that carries a callback contract.
func (ex *Exec) callCallback(id *ast.Ident, sig *types.Signature, args []Value, st *State, call *ast.CallExpr) ([]Value, bool) {
	f := ex.frame()
	if f.fn == nil || f.fn.Con == nil {
		return nil, false
	}
	cbs := f.fn.Con.Callbacks[id.Name]
	if len(cbs) == 0 {
		return nil, false
	}
	bind := map[string]Value{}
	f0 := ex.frames[0]
	if f0.fn == f.fn {
		for n, v := range f0.bind {
			bind[n] = v
		}
	}
	// ghost parameters and current parameter values
	for n, v := range f.entry {
		bind[n] = v
	}
	for i := 0; i < sig.Params().Len(); i++ {
		if n := sig.Params().At(i).Name(); n != "" {
			bind[n] = args[i]
		}
	}
	pre := st.clone()
	k := 0
	for _, c := range cbs {
		if c.Kind == "cb-requires" {
			g := ex.evalClause(c, st, pre, bind)
			ex.check(st, g, "callback-requires", call, fmt.Sprintf("callback:%s/requires#%d", id.Name, k))
			k++
		}
	}
	for _, c := range cbs {
		if c.Kind == "cb-modifies" {
			ex.havocModifies(f.fn, c, st, pre, bind, call)
		}
	}
	var res []Value
	for i := 0; i < sig.Results().Len(); i++ {
		v := freshValue("cb!"+id.Name, sig.Results().At(i).Type())
		st.assumeValid(v)
		res = append(res, v)
	}
	ex.assuming++
	for _, c := range cbs {
		if c.Kind == "cb-ensures" {
			st.assume(ex.evalClause(c, st, pre, bind))
		}
	}
	ex.assuming--
	ex.note("callback " + id.Name + " of " + f.fn.Short + ": assumed to satisfy its callback contract (checked against the closures passed at call sites only when the callee is inlined there)")
	return res, true
}

// checkCallSite: obligations attached by the enclosing function's contract to one particular call expression.
func (ex *Exec) checkCallSite(call *ast.CallExpr, st *State) {
	if ex.spec > 0 || len(ex.frames) == 0 {
		return
	}
	f := ex.frame()
	if f.fn == nil || f.fn.Con == nil || f.lit || len(f.fn.Con.CallSites) == 0 || f.fn.Decl.Body == nil {
		return
	}
	text := strings.ReplaceAll(nodeText(ex.vc.fset, call.Fun), " ", "")
	ord := -1
	n := 0
	ast.Inspect(f.fn.Decl.Body, func(x ast.Node) bool {
		if ce, ok := x.(*ast.CallExpr); ok && strings.ReplaceAll(nodeText(ex.vc.fset, ce.Fun), " ", "") == text {
			if ce == call {
				ord = n
			}
			n++
		}
		return true
	})
	cs := f.fn.Con.CallSites[fmt.Sprintf("%s#%d", text, ord)]
	var bind map[string]Value
	if len(cs) > 0 {
		bind = map[string]Value{}
		for i, a := range call.Args {
			if bt, ok := ex.info().TypeOf(a).(*types.Basic); ok && bt.Kind() != types.UntypedNil {
				ex.spec++
				bind[fmt.Sprintf("arg%d", i)] = ex.convertTo(ex.eval(a, st), types.Default(bt), st)
				ex.spec--
			}
		}
	}
	for k, c := range cs {
		if c.Scope {
			ex.note("SCOPE RESTRICTION (assumed): at " + text + " #" + fmt.Sprint(ord) + " in " + f.fn.Short + ": " + c.Text)
			st.assume(ex.evalClause(c, st, f.oldSt, bind))
			continue
		}
		g := ex.evalClause(c, st, f.oldSt, bind)
		ex.check(st, g, "callsite-requires", call, fmt.Sprintf("callsite:%s#%d/requires#%d", text, ord, k))
	}
}
