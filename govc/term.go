package main

// Term IR shared by both integer encodings (Int with explicit wrap-around, and bit-vectors).

import (
	"os"
	"fmt"
	"math"
	"math/big"
	"sort"
	"strings"
	"sync"
)

type SortKind int

const (
	SBool  SortKind = iota
	SGoInt          // fixed-width Go integer (W, Signed)
	SMath           // unbounded integer (specification only) and references
	SFP             // float64
	SArray          // Idx -> Elem
	SUn             // uninterpreted sort (Name)
)

type Sort struct {
	K      SortKind
	W      int
	Signed bool
	Idx    *Sort
	Elem   *Sort
	Name   string
}

var (
	sortBool = &Sort{K: SBool}
	sortMath = &Sort{K: SMath}
	sortRef  = sortMath
	sortFP   = &Sort{K: SFP}
	sortStr  = &Sort{K: SUn, Name: "Str"}
	goIntS   = map[string]*Sort{}
	arrS     = map[string]*Sort{}
)

func goInt(w int, signed bool) *Sort {
	k := fmt.Sprintf("%d/%v", w, signed)
	if s, ok := goIntS[k]; ok {
		return s
	}
	s := &Sort{K: SGoInt, W: w, Signed: signed}
	goIntS[k] = s
	return s
}

var sortInt = goInt(64, true)

func arraySort(idx, elem *Sort) *Sort {
	k := idx.String() + "->" + elem.String()
	if s, ok := arrS[k]; ok {
		return s
	}
	s := &Sort{K: SArray, Idx: idx, Elem: elem}
	arrS[k] = s
	return s
}

func (s *Sort) String() string {
	switch s.K {
	case SBool:
		return "Bool"
	case SGoInt:
		if s.Signed {
			return fmt.Sprintf("i%d", s.W)
		}
		return fmt.Sprintf("u%d", s.W)
	case SMath:
		return "Z"
	case SFP:
		return "F64"
	case SArray:
		return "[" + s.Idx.String() + "]" + s.Elem.String()
	case SUn:
		return s.Name
	}
	return "?"
}

func (s *Sort) lo() *big.Int {
	if !s.Signed {
		return big.NewInt(0)
	}
	x := new(big.Int).Lsh(big.NewInt(1), uint(s.W-1))
	return x.Neg(x)
}
func (s *Sort) hi() *big.Int {
	if !s.Signed {
		x := new(big.Int).Lsh(big.NewInt(1), uint(s.W))
		return x.Sub(x, big.NewInt(1))
	}
	x := new(big.Int).Lsh(big.NewInt(1), uint(s.W-1))
	return x.Sub(x, big.NewInt(1))
}

type Term struct {
	Op     string
	Args   []*Term
	Sort   *Sort
	Name   string    // var / app name
	Val    *big.Int  // integer const
	B      bool      // bool const
	F      float64   // fp const
	Bound  []*Term   // quantifier-bound vars
	Pats   [][]*Term // optional explicit patterns (quantifiers)
	NoWrap bool      // app whose result is known to be in range (no wrap in Int mode)
	id     int
}

var termCounter int

// Structural sharing (hash-consing) for operators whose nodes carry no extra fields: structurally equal terms are
// pointer-equal, which lets the simplifier recognise repeated conditions.
var consOps = map[string]bool{"not": true, "and": true, "or": true, "=>": true, "ite": true, "=": true, "distinct": true,
	"add": true, "sub": true, "mul": true, "div": true, "rem": true, "neg": true, "band": true, "bor": true, "bxor": true, "bandnot": true, "bnot": true,
	"shl": true, "shr": true, "lt": true, "le": true, "conv": true, "i2f": true, "f2i": true, "select": true, "store": true, "constarr": true,
	"fadd": true, "fsub": true, "fmul": true, "fdiv": true, "fneg": true, "fabs": true, "fsqrt": true, "fceil": true, "flt": true, "fle": true, "feq": true,
	"fisnan": true, "fisinf": true, "tsub": true, "iadd": true, "isub": true, "fldiv": true, "flmod": true}
var consTable = map[string]*Term{}
var termMu sync.Mutex

func mk(op string, s *Sort, args ...*Term) *Term {
	if consOps[op] {
		var sb strings.Builder
		sb.WriteString(op)
		sb.WriteByte('|')
		sb.WriteString(s.String())
		for _, a := range args {
			fmt.Fprintf(&sb, "|%d", a.id)
		}
		k := sb.String()
		termMu.Lock()
		defer termMu.Unlock()
		if t, ok := consTable[k]; ok {
			return t
		}
		termCounter++
		t := &Term{Op: op, Args: args, Sort: s, id: termCounter}
		consTable[k] = t
		return t
	}
	termMu.Lock()
	defer termMu.Unlock()
	termCounter++
	return &Term{Op: op, Args: args, Sort: s, id: termCounter}
}

var tTrue = &Term{Op: "const", Sort: sortBool, B: true, id: -1}
var tFalse = &Term{Op: "const", Sort: sortBool, B: false, id: -2}

func mkBool(b bool) *Term {
	if b {
		return tTrue
	}
	return tFalse
}

var constTable = map[string]*Term{}

func mkIntBig(s *Sort, v *big.Int) *Term {
	val := new(big.Int).Set(v)
	if s.K == SGoInt {
		val = wrapBig(val, s)
	}
	k := s.String() + "|" + val.String()
	termMu.Lock()
	if t, ok := constTable[k]; ok {
		termMu.Unlock()
		return t
	}
	termMu.Unlock()
	t := mk("const", s)
	t.Val = val
	termMu.Lock()
	constTable[k] = t
	termMu.Unlock()
	return t
}
func mkInt(s *Sort, v int64) *Term { return mkIntBig(s, big.NewInt(v)) }
func mkFP(f float64) *Term {
	k := fmt.Sprintf("fp|%x", math.Float64bits(f))
	termMu.Lock()
	if t, ok := constTable[k]; ok {
		termMu.Unlock()
		return t
	}
	termMu.Unlock()
	t := mk("const", sortFP)
	t.F = f
	termMu.Lock()
	constTable[k] = t
	termMu.Unlock()
	return t
}

func wrapBig(v *big.Int, s *Sort) *big.Int {
	m := new(big.Int).Lsh(big.NewInt(1), uint(s.W))
	r := new(big.Int).Mod(v, m)
	if s.Signed && r.Cmp(s.hi()) > 0 {
		r.Sub(r, m)
	}
	return r
}

var freshCounter = map[string]int{}

var varTable = map[string]*Term{}

func mkVar(name string, s *Sort) *Term {
	k := name + "|" + s.String()
	termMu.Lock()
	if t, ok := varTable[k]; ok {
		termMu.Unlock()
		return t
	}
	termMu.Unlock()
	t := mk("var", s)
	t.Name = name
	termMu.Lock()
	varTable[k] = t
	termMu.Unlock()
	return t
}

func freshVar(prefix string, s *Sort) *Term {
	freshCounter[prefix]++
	return mkVar(fmt.Sprintf("%s!%d", prefix, freshCounter[prefix]), s)
}

func (t *Term) isConst() bool { return t.Op == "const" }
func (t *Term) isTrue() bool  { return t.Op == "const" && t.Sort.K == SBool && t.B }
func (t *Term) isFalse() bool { return t.Op == "const" && t.Sort.K == SBool && !t.B }

func mkNot(a *Term) *Term {
	if a.isConst() {
		return mkBool(!a.B)
	}
	if a.Op == "not" {
		return a.Args[0]
	}
	return mk("not", sortBool, a)
}

func mkAnd(as ...*Term) *Term {
	var out []*Term
	for _, a := range as {
		if a.isTrue() {
			continue
		}
		if a.isFalse() {
			return tFalse
		}
		if a.Op == "and" {
			out = append(out, a.Args...)
		} else {
			out = append(out, a)
		}
	}
	if len(out) == 0 {
		return tTrue
	}
	if len(out) == 1 {
		return out[0]
	}
	return mk("and", sortBool, out...)
}

func mkOr(as ...*Term) *Term {
	var out []*Term
	for _, a := range as {
		if a.isFalse() {
			continue
		}
		if a.isTrue() {
			return tTrue
		}
		if a.Op == "or" {
			out = append(out, a.Args...)
		} else {
			out = append(out, a)
		}
	}
	if len(out) == 0 {
		return tFalse
	}
	if len(out) == 1 {
		return out[0]
	}
	return mk("or", sortBool, out...)
}

func mkImplies(a, b *Term) *Term {
	if a.isTrue() {
		return b
	}
	if a.isFalse() || b.isTrue() {
		return tTrue
	}
	if b.isFalse() {
		return mkNot(a)
	}
	return mk("=>", sortBool, a, b)
}

func mkIte(c, a, b *Term) *Term {
	if c.isTrue() {
		return a
	}
	if c.isFalse() {
		return b
	}
	if a == b {
		return a
	}
	if a.Sort.K == SBool {
		if a.isTrue() && b.isFalse() {
			return c
		}
		if a.isFalse() && b.isTrue() {
			return mkNot(c)
		}
	}
	if a.isConst() && b.isConst() && a.Sort.K != SBool && a.Sort.K != SFP && a.Val != nil && b.Val != nil && a.Val.Cmp(b.Val) == 0 {
		return a
	}
	return mk("ite", a.Sort, c, a, b)
}

func sameSort(a, b *Sort) bool {
	if a == b {
		return true
	}
	return a.String() == b.String()
}

func mkEq(a, b *Term) *Term {
	if a == b && a.Sort.K != SFP {
		return tTrue
	}
	if !sameSort(a.Sort, b.Sort) {
		panic(fmt.Sprintf("mkEq: sort mismatch %s vs %s (%s / %s)", a.Sort, b.Sort, a.short(), b.short()))
	}
	if a.isConst() && b.isConst() {
		switch a.Sort.K {
		case SBool:
			return mkBool(a.B == b.B)
		case SGoInt, SMath:
			return mkBool(a.Val.Cmp(b.Val) == 0)
		}
	}
	if a.Sort.K == SBool {
		if b.isTrue() {
			return a
		}
		if b.isFalse() {
			return mkNot(a)
		}
		if a.isTrue() {
			return b
		}
		if a.isFalse() {
			return mkNot(b)
		}
	}
	if a.Sort.K == SFP {
		// Go == on floats is IEEE equality
		return mk("feq", sortBool, a, b)
	}
	return mk("=", sortBool, a, b)
}

// integer/mathint binary arithmetic. For SGoInt the result wraps to the operand sort.
func mkArith(op string, a, b *Term) *Term {
	if !sameSort(a.Sort, b.Sort) {
		panic(fmt.Sprintf("mkArith %s: sort mismatch %s vs %s (%s / %s)", op, a.Sort, b.Sort, a.short(), b.short()))
	}
	s := a.Sort
	if a.isConst() && b.isConst() {
		r := new(big.Int)
		ok := true
		switch op {
		case "add":
			r.Add(a.Val, b.Val)
		case "sub":
			r.Sub(a.Val, b.Val)
		case "mul":
			r.Mul(a.Val, b.Val)
		case "div":
			if b.Val.Sign() == 0 {
				ok = false
			} else {
				r.Quo(a.Val, b.Val)
			}
		case "rem":
			if b.Val.Sign() == 0 {
				ok = false
			} else {
				r.Rem(a.Val, b.Val)
			}
		case "fldiv":
			if b.Val.Sign() == 0 {
				ok = false
			} else {
				r.Div(a.Val, b.Val)
			}
		case "flmod":
			if b.Val.Sign() == 0 {
				ok = false
			} else {
				r.Mod(a.Val, b.Val)
			}
		case "band":
			r.And(toUnsigned(a.Val, s), toUnsigned(b.Val, s))
		case "bor":
			r.Or(toUnsigned(a.Val, s), toUnsigned(b.Val, s))
		case "bxor":
			r.Xor(toUnsigned(a.Val, s), toUnsigned(b.Val, s))
		case "bandnot":
			r.AndNot(toUnsigned(a.Val, s), toUnsigned(b.Val, s))
		default:
			ok = false
		}
		if ok {
			return mkIntBig(s, r)
		}
	}
	// light identities
	if b.isConst() && b.Val.Sign() == 0 && (op == "add" || op == "sub" || op == "bor" || op == "bxor") {
		return a
	}
	if a.isConst() && a.Val.Sign() == 0 && (op == "add" || op == "bor" || op == "bxor") {
		return b
	}
	return mk(op, s, a, b)
}

func toUnsigned(v *big.Int, s *Sort) *big.Int {
	if s.K != SGoInt || v.Sign() >= 0 {
		return v
	}
	m := new(big.Int).Lsh(big.NewInt(1), uint(s.W))
	return new(big.Int).Add(v, m)
}

func mkShift(op string, a, cnt *Term) *Term {
	// cnt is any GoInt (non-negative by safety obligation for signed counts)
	if a.isConst() && cnt.isConst() {
		c := cnt.Val
		if c.Sign() >= 0 {
			if c.Cmp(big.NewInt(int64(a.Sort.W))) >= 0 {
				if op == "shr" && a.Sort.Signed && a.Val.Sign() < 0 {
					return mkInt(a.Sort, -1)
				}
				return mkInt(a.Sort, 0)
			}
			n := uint(c.Int64())
			if op == "shl" {
				return mkIntBig(a.Sort, new(big.Int).Lsh(a.Val, n))
			}
			return mkIntBig(a.Sort, new(big.Int).Rsh(a.Val, n)) // big.Int Rsh is arithmetic (floor)
		}
	}
	return mk(op, a.Sort, a, cnt)
}

// idxAdd / idxSub: slice index arithmetic. It cannot overflow: every slice satisfies off+cap <= 2^40 and every
// access is preceded by a bounds check, so the operation is printed without wrap-around.
func idxAdd(a, b *Term) *Term {
	if a.isConst() && b.isConst() {
		return mkIntBig(a.Sort, new(big.Int).Add(a.Val, b.Val))
	}
	if b.isConst() && b.Val.Sign() == 0 {
		return a
	}
	if a.isConst() && a.Val.Sign() == 0 {
		return b
	}
	// off + (x - off) == x
	if b.Op == "isub" && sameTerm(b.Args[1], a) {
		return b.Args[0]
	}
	if a.Op == "isub" && sameTerm(a.Args[1], b) {
		return a.Args[0]
	}
	return mk("iadd", a.Sort, a, b)
}
func idxSub(a, b *Term) *Term {
	if a.isConst() && b.isConst() {
		return mkIntBig(a.Sort, new(big.Int).Sub(a.Val, b.Val))
	}
	if b.isConst() && b.Val.Sign() == 0 {
		return a
	}
	// (off + i) - off == i
	if a.Op == "iadd" && sameTerm(a.Args[0], b) {
		return a.Args[1]
	}
	if sameTerm(a, b) {
		return mkInt(a.Sort, 0)
	}
	return mk("isub", a.Sort, a, b)
}

func sameTerm(a, b *Term) bool {
	if a == b {
		return true
	}
	if a.Op == "var" && b.Op == "var" {
		return a.Name == b.Name
	}
	if a.isConst() && b.isConst() && a.Val != nil && b.Val != nil {
		return a.Val.Cmp(b.Val) == 0 && sameSort(a.Sort, b.Sort)
	}
	if a.Op == b.Op && a.Op != "const" && a.Op != "var" && len(a.Args) == len(b.Args) && a.Name == b.Name && len(a.Args) > 0 && len(a.Bound) == 0 {
		for i := range a.Args {
			if !sameTerm(a.Args[i], b.Args[i]) {
				return false
			}
		}
		return sameSort(a.Sort, b.Sort)
	}
	return false
}

func mkNeg(a *Term) *Term {
	if a.isConst() {
		return mkIntBig(a.Sort, new(big.Int).Neg(a.Val))
	}
	return mk("neg", a.Sort, a)
}

func mkCmp(op string, a, b *Term) *Term { // lt, le
	if !sameSort(a.Sort, b.Sort) {
		panic(fmt.Sprintf("mkCmp %s: sort mismatch %s vs %s (%s / %s)", op, a.Sort, b.Sort, a.short(), b.short()))
	}
	if a.Sort.K == SFP {
		return mk("f"+op, sortBool, a, b)
	}
	if a.isConst() && b.isConst() {
		c := a.Val.Cmp(b.Val)
		if op == "lt" {
			return mkBool(c < 0)
		}
		return mkBool(c <= 0)
	}
	return mk(op, sortBool, a, b)
}

func mkConv(a *Term, to *Sort) *Term {
	if sameSort(a.Sort, to) {
		return a
	}
	if a.isConst() && a.Sort.K != SFP && to.K != SFP {
		return mkIntBig(to, a.Val)
	}
	switch {
	case a.Sort.K == SFP && to.K == SGoInt:
		return mk("f2i", to, a)
	case to.K == SFP && (a.Sort.K == SGoInt || a.Sort.K == SMath):
		if a.isConst() {
			f, _ := new(big.Float).SetInt(a.Val).Float64()
			if a.Val.IsInt64() && a.Val.BitLen() <= 53 {
				return mkFP(f)
			}
		}
		return mk("i2f", to, a)
	}
	return mk("conv", to, a)
}

func mkSelect(arr, idx *Term) *Term {
	// select over store with syntactically decidable indices
	for arr.Op == "store" {
		si := arr.Args[1]
		if si == idx {
			return arr.Args[2]
		}
		if si.isConst() && idx.isConst() && si.Val != nil && idx.Val != nil {
			if si.Val.Cmp(idx.Val) == 0 {
				return arr.Args[2]
			}
			arr = arr.Args[0]
			continue
		}
		break
	}
	if arr.Op == "constarr" {
		return arr.Args[0]
	}
	return mk("select", arr.Sort.Elem, arr, idx)
}

func mkStore(arr, idx, v *Term) *Term {
	if !sameSort(arr.Sort.Elem, v.Sort) {
		panic(fmt.Sprintf("mkStore: elem sort mismatch %s vs %s", arr.Sort.Elem, v.Sort))
	}
	if arr.Op == "store" && arr.Args[1] == idx {
		return mk("store", arr.Sort, arr.Args[0], idx, v)
	}
	return mk("store", arr.Sort, arr, idx, v)
}

func mkConstArr(s *Sort, v *Term) *Term { return mk("constarr", s, v) }

func mkApp(name string, s *Sort, args ...*Term) *Term {
	var sb strings.Builder
	sb.WriteString("app|" + name + "|" + s.String())
	for _, a := range args {
		fmt.Fprintf(&sb, "|%d", a.id)
	}
	k := sb.String()
	termMu.Lock()
	if t, ok := consTable[k]; ok {
		termMu.Unlock()
		return t
	}
	termMu.Unlock()
	t := mk("app", s, args...)
	t.Name = name
	termMu.Lock()
	consTable[k] = t
	termMu.Unlock()
	return t
}

func mkQuant(op string, bound []*Term, body *Term, pats ...[]*Term) *Term {
	if body.isConst() {
		return body
	}
	t := mk(op, sortBool, body)
	t.Bound = bound
	t.Pats = pats
	return t
}

func (t *Term) short() string {
	s := t.String()
	if len(s) > 200 {
		return s[:200] + "..."
	}
	return s
}

func (t *Term) String() string {
	var sb strings.Builder
	t.str(&sb, 0)
	return sb.String()
}

func (t *Term) str(sb *strings.Builder, depth int) {
	if depth > 12 {
		sb.WriteString("…")
		return
	}
	switch t.Op {
	case "const":
		switch t.Sort.K {
		case SBool:
			fmt.Fprintf(sb, "%v", t.B)
		case SFP:
			fmt.Fprintf(sb, "%g", t.F)
		default:
			sb.WriteString(t.Val.String())
		}
	case "var":
		sb.WriteString(t.Name)
	default:
		sb.WriteString("(")
		sb.WriteString(t.Op)
		if t.Op == "app" {
			sb.WriteString(":" + t.Name)
		}
		for _, b := range t.Bound {
			sb.WriteString(" [" + b.Name + "]")
		}
		for _, a := range t.Args {
			sb.WriteString(" ")
			a.str(sb, depth+1)
		}
		sb.WriteString(")")
	}
}

// simplifyUnder rewrites t assuming the given boolean terms have the given truth values (pointer identity thanks to sharing).
func simplifyUnder(t *Term, lits map[*Term]bool) *Term {
	if len(lits) == 0 {
		return t
	}
	cache := map[*Term]*Term{}
	var rec func(t *Term) *Term
	rec = func(t *Term) *Term {
		if r, ok := cache[t]; ok {
			return r
		}
		var r *Term
		if v, ok := lits[t]; ok && t.Sort.K == SBool {
			r = mkBool(v)
		} else if len(t.Args) == 0 || t.Op == "forall" || t.Op == "exists" {
			r = t
		} else {
			changed := false
			args := make([]*Term, len(t.Args))
			for i, a := range t.Args {
				args[i] = rec(a)
				if args[i] != a {
					changed = true
				}
			}
			if changed {
				r = rebuild(t, args)
			} else {
				r = t
			}
		}
		cache[t] = r
		return r
	}
	return rec(t)
}

// unitLits extracts literals (atoms and negated atoms, through conjunctions) that hold when all of fs hold.
func unitLits(fs []*Term, into map[*Term]bool) {
	for _, f := range fs {
		switch {
		case f.Op == "and":
			unitLits(f.Args, into)
		case f.Op == "not":
			if f.Args[0].Op != "const" {
				into[f.Args[0]] = false
			}
		case f.Op == "const":
		default:
			if f.Sort.K == SBool {
				into[f] = true
			}
		}
	}
}

// substitute variables (by name) in t
func subst(t *Term, m map[string]*Term) *Term {
	if len(m) == 0 {
		return t
	}
	cache := map[*Term]*Term{}
	var rec func(t *Term) *Term
	rec = func(t *Term) *Term {
		if r, ok := cache[t]; ok {
			return r
		}
		var r *Term
		switch t.Op {
		case "const":
			r = t
		case "var":
			if v, ok := m[t.Name]; ok {
				r = v
			} else {
				r = t
			}
		default:
			changed := false
			args := make([]*Term, len(t.Args))
			for i, a := range t.Args {
				args[i] = rec(a)
				if args[i] != a {
					changed = true
				}
			}
			if !changed {
				r = t
			} else {
				r = rebuild(t, args)
			}
		}
		cache[t] = r
		return r
	}
	return rec(t)
}

func rebuild(t *Term, args []*Term) *Term {
	switch t.Op {
	case "not":
		return mkNot(args[0])
	case "and":
		return mkAnd(args...)
	case "or":
		return mkOr(args...)
	case "=>":
		return mkImplies(args[0], args[1])
	case "ite":
		return mkIte(args[0], args[1], args[2])
	case "=":
		return mkEq(args[0], args[1])
	case "add", "sub", "mul", "div", "rem", "band", "bor", "bxor", "bandnot", "fldiv", "flmod":
		return mkArith(t.Op, args[0], args[1])
	case "shl", "shr":
		return mkShift(t.Op, args[0], args[1])
	case "neg":
		return mkNeg(args[0])
	case "iadd":
		return idxAdd(args[0], args[1])
	case "isub":
		return idxSub(args[0], args[1])
	case "lt", "le":
		return mkCmp(t.Op, args[0], args[1])
	case "conv", "i2f", "f2i":
		return mkConv(args[0], t.Sort)
	case "select":
		return mkSelect(args[0], args[1])
	}
	n := mk(t.Op, t.Sort, args...)
	n.Name = t.Name
	n.Bound = t.Bound
	n.NoWrap = t.NoWrap
	if t.Pats != nil {
		// patterns are rebuilt by the caller when substitution changes them; keep as is (they only mention bound vars and free symbols)
		n.Pats = t.Pats
	}
	n.Val = t.Val
	n.B = t.B
	n.F = t.F
	return n
}

// ---------------------------------------------------------------------------------
// SMT-LIB printing

type Mode int

const (
	ModeInt Mode = iota
	ModeBV
	ModeReal   // Int encoding for integers, floats as reals with the standard rounding-error model
	ModePruned // Int encoding, irrelevant quantified hypotheses dropped
	ModePrunedReal
	ModePrunedBV
)

func (m Mode) String() string {
	if m == ModeBV {
		return "bv"
	}
	if m == ModeReal {
		return "real"
	}
	if m == ModePruned {
		return "pruned"
	}
	if m == ModePrunedReal {
		return "pruned-real"
	}
	if m == ModePrunedBV {
		return "pruned-bv"
	}
	return "int"
}

type errInexpressible struct{ why string }

func (e errInexpressible) Error() string { return "inexpressible: " + e.why }

type smtPrinter struct {
	mode                Mode
	decls               []string
	declSet             map[string]bool
	defs                []string // define-fun for shared nodes
	names               map[*Term]string
	refs                map[*Term]int
	hasBV               bool // int-mode with int2bv bridges
	sorts               map[string]bool
	wraps               map[string]bool
	funs                map[string]bool
	nq                  int
	relaxed             bool
	fpVars              []string        // free float variables declared
	finite              map[string]bool // those bounded on both sides by a hypothesis
	qbound              map[string]bool
	unbUses, unbCmpUses map[string]int     // occurrences of possibly non-finite free float variables: all / as direct comparison operands
	side                []string           // side conditions of the relaxed float model (no overflow, no division by zero): proved with the goal
	opSide              map[*Term][]string // per float operation
	nfp                 int
}

func newSmtPrinter(mode Mode) *smtPrinter {
	relaxed := false
	if mode == ModeReal || mode == ModePrunedReal {
		mode = ModeInt
		relaxed = true
	}
	if mode == ModePruned {
		mode = ModeInt
	}
	if mode == ModePrunedBV {
		mode = ModeBV
	}
	return &smtPrinter{relaxed: relaxed, mode: mode, declSet: map[string]bool{}, names: map[*Term]string{}, refs: map[*Term]int{}, sorts: map[string]bool{}, wraps: map[string]bool{}, funs: map[string]bool{}}
}

func (p *smtPrinter) sort(s *Sort) string {
	switch s.K {
	case SBool:
		return "Bool"
	case SGoInt:
		if p.mode == ModeBV {
			return fmt.Sprintf("(_ BitVec %d)", s.W)
		}
		return "Int"
	case SMath:
		return "Int"
	case SFP:
		if p.relaxed {
			return "Real"
		}
		return "(_ FloatingPoint 11 53)"
	case SArray:
		return "(Array " + p.sort(s.Idx) + " " + p.sort(s.Elem) + ")"
	case SUn:
		if !p.sorts[s.Name] {
			p.sorts[s.Name] = true
			p.decls = append([]string{"(declare-sort " + s.Name + " 0)"}, p.decls...)
		}
		return s.Name
	}
	panic("sort")
}

func smtName(n string) string { return "|" + strings.ReplaceAll(n, "|", "_") + "|" }

func intLit(v *big.Int) string {
	if v.Sign() < 0 {
		return "(- " + new(big.Int).Neg(v).String() + ")"
	}
	return v.String()
}

func (p *smtPrinter) bvLit(v *big.Int, w int) string {
	u := new(big.Int).Set(v)
	if u.Sign() < 0 {
		u.Add(u, new(big.Int).Lsh(big.NewInt(1), uint(w)))
	}
	return fmt.Sprintf("(_ bv%s %d)", u.String(), w)
}

func (p *smtPrinter) wrapFn(s *Sort) string {
	name := "wrap_" + s.String()
	if !p.wraps[name] {
		p.wraps[name] = true
		m := new(big.Int).Lsh(big.NewInt(1), uint(s.W))
		var def string
		if s.Signed {
			h := new(big.Int).Lsh(big.NewInt(1), uint(s.W-1))
			def = fmt.Sprintf("(define-fun %s ((x Int)) Int (ite (and (<= %s x) (<= x %s)) x (- (mod (+ x %s) %s) %s)))", name, intLit(s.lo()), intLit(s.hi()), h, m, h)
		} else {
			def = fmt.Sprintf("(define-fun %s ((x Int)) Int (ite (and (<= 0 x) (<= x %s)) x (mod x %s)))", name, intLit(s.hi()), m)
		}
		p.decls = append(p.decls, def)
	}
	return name
}

func (p *smtPrinter) helper(name, def string) string {
	if !p.funs[name] {
		p.funs[name] = true
		p.decls = append(p.decls, def)
	}
	return name
}

func (p *smtPrinter) tdiv() string {
	return p.helper("tdiv", "(define-fun tdiv ((a Int) (b Int)) Int (ite (> b 0) (ite (>= a 0) (div a b) (- (div (- a) b))) (ite (>= a 0) (- (div a (- b))) (div (- a) (- b)))))")
}

func (p *smtPrinter) countRefs(t *Term, seen map[*Term]bool) {
	p.refs[t]++
	if seen[t] {
		return
	}
	seen[t] = true
	for _, a := range t.Args {
		p.countRefs(a, seen)
	}
}

func hasBound(t *Term, bound map[string]bool, cache map[*Term]bool) bool {
	if len(bound) == 0 {
		return false
	}
	if v, ok := cache[t]; ok {
		return v
	}
	r := false
	if t.Op == "var" {
		r = bound[t.Name]
	} else {
		for _, a := range t.Args {
			if hasBound(a, bound, cache) {
				r = true
				break
			}
		}
	}
	cache[t] = r
	return r
}

func collectBound(t *Term, out map[string]bool, seen map[*Term]bool) {
	if seen[t] {
		return
	}
	seen[t] = true
	for _, b := range t.Bound {
		out[b.Name] = true
	}
	for _, a := range t.Args {
		collectBound(a, out, seen)
	}
}

// top prints a top-level formula, emitting shared closed sub-terms as define-funs first.
func (p *smtPrinter) top(t *Term) string {
	seen := map[*Term]bool{}
	p.countRefs(t, seen)
	bound := map[string]bool{}
	collectBound(t, bound, map[*Term]bool{})
	bc := map[*Term]bool{}
	return p.pr(t, bound, bc)
}

func (p *smtPrinter) pr(t *Term, bound map[string]bool, bc map[*Term]bool) string {
	if n, ok := p.names[t]; ok {
		return n
	}
	s := p.pr1(t, bound, bc)
	if p.relaxed && len(t.Args) > 0 && (t.Sort.K == SFP || t.Op == "f2i") && !hasBound(t, bound, bc) {
		// a float operation denotes one rounded value: every occurrence must print to the same rounding variable
		p.names[t] = s
		return s
	}
	if p.refs[t] > 1 && len(t.Args) > 0 && len(s) > 24 && !hasBound(t, bound, bc) {
		p.nq++
		n := fmt.Sprintf("t!%d", p.nq)
		p.defs = append(p.defs, fmt.Sprintf("(define-fun %s () %s %s)", n, p.sort(t.Sort), s))
		p.names[t] = n
		return n
	}
	return s
}

// patTerm prints a pattern term: no wrap functions (they are macros and would put ite into the pattern).
func (p *smtPrinter) patTerm(t *Term, bound map[string]bool, bc map[*Term]bool) string {
	s := p.pr(t, bound, bc)
	if p.mode == ModeInt && t.Sort.K == SGoInt && (t.Op == "select" || t.Op == "app") {
		w := "(" + p.wrapFn(t.Sort) + " "
		if strings.HasPrefix(s, w) {
			return s[len(w) : len(s)-1]
		}
	}
	return s
}

func (p *smtPrinter) declVar(t *Term) string {
	n := smtName(t.Name)
	if !p.declSet[t.Name] {
		p.declSet[t.Name] = true
		p.decls = append(p.decls, fmt.Sprintf("(declare-fun %s () %s)", n, p.sort(t.Sort)))
		if t.Sort.K == SFP {
			p.fpVars = append(p.fpVars, t.Name)
		}
		if p.mode == ModeInt && t.Sort.K == SGoInt {
			p.decls = append(p.decls, fmt.Sprintf("(assert (and (<= %s %s) (<= %s %s)))", intLit(t.Sort.lo()), n, n, intLit(t.Sort.hi())))
		}
	}
	return n
}

func fpLit(f float64) string {
	if math.IsNaN(f) {
		return "(_ NaN 11 53)"
	}
	if math.IsInf(f, 1) {
		return "(_ +oo 11 53)"
	}
	if math.IsInf(f, -1) {
		return "(_ -oo 11 53)"
	}
	b := math.Float64bits(f)
	return fmt.Sprintf("(fp #b%01b #b%011b #b%052b)", b>>63, (b>>52)&0x7ff, b&((1<<52)-1))
}

func (p *smtPrinter) pr1(t *Term, bound map[string]bool, bc map[*Term]bool) string {
	rec := func(a *Term) string { return p.pr(a, bound, bc) }
	nary := func(op string) string {
		parts := make([]string, len(t.Args))
		for i, a := range t.Args {
			parts[i] = rec(a)
		}
		return "(" + op + " " + strings.Join(parts, " ") + ")"
	}
	switch t.Op {
	case "const":
		switch t.Sort.K {
		case SBool:
			if t.B {
				return "true"
			}
			return "false"
		case SFP:
			if p.relaxed {
				return realLit(t.F)
			}
			return fpLit(t.F)
		case SGoInt:
			if p.mode == ModeBV {
				return p.bvLit(t.Val, t.Sort.W)
			}
			return intLit(t.Val)
		default:
			return intLit(t.Val)
		}
	case "var":
		if bound[t.Name] {
			return smtName(t.Name)
		}
		if p.relaxed && t.Sort.K == SFP && p.unbUses != nil && !p.finite[t.Name] {
			p.unbUses[t.Name]++
		}
		return p.declVar(t)
	case "not", "and", "or", "=>", "ite", "=", "distinct":
		return nary(t.Op)
	case "feq", "flt", "fle", "fadd", "fsub", "fmul", "fdiv", "fneg", "fabs", "fsqrt", "fceil", "fisnan", "fisinf", "i2f", "f2i":
		if p.relaxed {
			if hasBound(t, bound, bc) {
				panic(errInexpressible{"float operation under a quantifier in the relaxed encoding"})
			}
			return p.prRelaxed(t, rec)
		}
		return p.prFP(t, rec, nary)
	case "select":
		s := nary("select")
		if p.mode == ModeInt && t.Sort.K == SGoInt {
			return "(" + p.wrapFn(t.Sort) + " " + s + ")"
		}
		return s
	case "store":
		return nary("store")
	case "constarr":
		return "((as const " + p.sort(t.Sort) + ") " + rec(t.Args[0]) + ")"
	case "app":
		key := "app:" + t.Name
		if !p.declSet[key] {
			p.declSet[key] = true
			var as []string
			for _, a := range t.Args {
				as = append(as, p.sort(a.Sort))
			}
			p.decls = append(p.decls, fmt.Sprintf("(declare-fun %s (%s) %s)", smtName(t.Name), strings.Join(as, " "), p.sort(t.Sort)))
		}
		var s string
		if len(t.Args) == 0 {
			s = smtName(t.Name)
		} else {
			s = nary(smtName(t.Name))
		}
		if p.mode == ModeInt && t.Sort.K == SGoInt && !t.NoWrap {
			return "(" + p.wrapFn(t.Sort) + " " + s + ")"
		}
		return s
	case "forall", "exists":
		var bs []string
		var guards []string
		for _, b := range t.Bound {
			bs = append(bs, "("+smtName(b.Name)+" "+p.sort(b.Sort)+")")
			if p.mode == ModeInt && b.Sort.K == SGoInt {
				guards = append(guards, fmt.Sprintf("(<= %s %s) (<= %s %s)", intLit(b.Sort.lo()), smtName(b.Name), smtName(b.Name), intLit(b.Sort.hi())))
			}
		}
		body := rec(t.Args[0])
		if len(guards) > 0 {
			g := "(and " + strings.Join(guards, " ") + ")"
			if t.Op == "forall" {
				body = "(=> " + g + " " + body + ")"
			} else {
				body = "(and " + g + " " + body + ")"
			}
		}
		if len(t.Pats) > 0 {
			var ps []string
			for _, pat := range t.Pats {
				var ts []string
				okPat := true
				for _, x := range pat {
					if hasBoolOp(x) {
						okPat = false // the solvers reject patterns with logical connectives
					}
					ts = append(ts, p.patTerm(x, bound, bc))
				}
				if okPat {
					ps = append(ps, ":pattern ("+strings.Join(ts, " ")+")")
				}
			}
			if len(ps) > 0 {
				body = "(! " + body + " " + strings.Join(ps, " ") + ")"
			}
		}
		return "(" + t.Op + " (" + strings.Join(bs, " ") + ") " + body + ")"
	}
	if p.mode == ModeBV {
		return p.prBV(t, rec)
	}
	return p.prInt(t, rec)
}

func (p *smtPrinter) prFP(t *Term, rec func(*Term) string, nary func(string) string) string {
	switch t.Op {
	case "feq":
		return nary("fp.eq")
	case "flt":
		return nary("fp.lt")
	case "fle":
		return nary("fp.leq")
	case "fadd", "fsub", "fmul", "fdiv":
		return "(fp." + t.Op[1:] + " RNE " + rec(t.Args[0]) + " " + rec(t.Args[1]) + ")"
	case "fneg":
		return nary("fp.neg")
	case "fabs":
		return nary("fp.abs")
	case "fsqrt":
		return "(fp.sqrt RNE " + rec(t.Args[0]) + ")"
	case "fceil":
		return "(fp.roundToIntegral RTP " + rec(t.Args[0]) + ")"
	case "fisnan":
		return nary("fp.isNaN")
	case "fisinf":
		return nary("fp.isInfinite")
	case "i2f":
		a := t.Args[0]
		if p.mode == ModeBV && a.Sort.K == SGoInt {
			if a.Sort.Signed {
				return "((_ to_fp 11 53) RNE " + rec(a) + ")"
			}
			return "((_ to_fp_unsigned 11 53) RNE " + rec(a) + ")"
		}
		return "((_ to_fp 11 53) RNE (to_real " + rec(a) + "))"
	case "f2i":
		a := t.Args[0]
		if p.mode == ModeBV {
			if t.Sort.Signed {
				return fmt.Sprintf("((_ fp.to_sbv %d) RTZ %s)", t.Sort.W, rec(a))
			}
			return fmt.Sprintf("((_ fp.to_ubv %d) RTZ %s)", t.Sort.W, rec(a))
		}
		p.helper("rtz", "(define-fun rtz ((r Real)) Int (ite (>= r 0.0) (to_int r) (- (to_int (- r)))))")
		return "(" + p.wrapFn(t.Sort) + " (rtz (fp.to_real " + rec(a) + ")))"
	}
	panic("prFP: " + t.Op)
}

func realLit(f float64) string {
	if math.IsNaN(f) || math.IsInf(f, 0) {
		panic(errInexpressible{"non-finite float constant in the relaxed encoding"})
	}
	r := new(big.Rat)
	r.SetFloat64(f)
	num, den := r.Num(), r.Denom()
	n := num.String()
	if num.Sign() < 0 {
		n = "(- " + new(big.Int).Neg(num).String() + ".0)"
	} else {
		n += ".0"
	}
	if den.Cmp(big.NewInt(1)) == 0 {
		return n
	}
	return "(/ " + n + " " + den.String() + ".0)"
}

// prRelaxed: floats as reals. Every rounding operation yields a fresh real r related to the exact result e by
// |r - e| <= |e|*2^-53 + 2^-1075 (round-to-nearest, normal and subnormal range); the side conditions "no overflow"
// and "no division by zero" are collected and must be proved together with the goal.
func (p *smtPrinter) prRelaxed(t *Term, rec func(*Term) string) string {
	a := func(i int) string { return rec(t.Args[i]) }
	p.helper("fpabs", "(define-fun fpabs ((x Real)) Real (ite (>= x 0.0) x (- x)))")
	p.helper("fprnd", "(define-fun fprnd ((e Real) (r Real)) Bool (and (<= (- e (+ (* (fpabs e) (/ 1.0 9007199254740992.0)) (/ 1.0 "+pow2(1075)+".0))) r) (<= r (+ e (+ (* (fpabs e) (/ 1.0 9007199254740992.0)) (/ 1.0 "+pow2(1075)+".0))))))")
	maxf := "179769313486231570814527423731704356798070567525844996598917476803157260780028538760589558632766878171540458953514382464234321326889464182768467546703537516986049910576551282076245490090389328944075868508455133942304583236903222948165808559332123348274797826204144723168738177180919299881250404026184124858368.0"
	round := func(e string) string {
		p.nfp++
		r := fmt.Sprintf("fp!%d", p.nfp)
		ev := fmt.Sprintf("fpe!%d", p.nfp)
		// rounding is a function of the exact value (equal exact values round equally)
		p.helper("fprn", "(declare-fun fprn (Real) Real)")
		// round-to-nearest is monotone and exact on representable values (a few small integers suffice here)
		p.helper("fprn-mono", "(assert (forall ((x Real) (y Real)) (! (=> (<= x y) (<= (fprn x) (fprn y))) :pattern ((fprn x) (fprn y)))))")
		p.helper("fprn-exact", "(assert (and (= (fprn 0.0) 0.0) (= (fprn 1.0) 1.0) (= (fprn (- 1.0)) (- 1.0)) (= (fprn 2.0) 2.0)))")
		p.defs = append(p.defs, fmt.Sprintf("(define-fun %s () Real %s)", ev, e), fmt.Sprintf("(define-fun %s () Real (fprn %s))", r, ev), fmt.Sprintf("(assert (fprnd %s %s))", ev, r))
		p.addSide(t, fmt.Sprintf("(<= (fpabs %s) %s)", ev, maxf))
		return r
	}
	unb := func(i int) string { // v!nan for a possibly non-finite free variable used as a direct operand, else ""
		x := t.Args[i]
		if x.Op == "var" && x.Sort.K == SFP && p.unbUses != nil && !p.finite[x.Name] && !p.qbound[x.Name] {
			p.unbCmpUses[x.Name]++
			n := smtName(x.Name + "!nan")
			if !p.declSet[x.Name+"!nan"] {
				p.declSet[x.Name+"!nan"] = true
				p.decls = append(p.decls, fmt.Sprintf("(declare-fun %s () Bool)", n))
			}
			return n
		}
		return ""
	}
	cmp := func(op string) string {
		c := "(" + op + " " + a(0) + " " + a(1) + ")"
		for i := 0; i < 2; i++ {
			if n := unb(i); n != "" {
				c = "(and (not " + n + ") " + c + ")"
			}
		}
		return c
	}
	switch t.Op {
	case "feq":
		return cmp("=")
	case "flt":
		return cmp("<")
	case "fle":
		return cmp("<=")
	case "fadd":
		return round("(+ " + a(0) + " " + a(1) + ")")
	case "fsub":
		return round("(- " + a(0) + " " + a(1) + ")")
	case "fmul":
		return round("(* " + a(0) + " " + a(1) + ")")
	case "fdiv":
		d := a(1)
		p.addSide(t, "(not (= "+d+" 0.0))")
		return round("(/ " + a(0) + " " + d + ")")
	case "fneg":
		return "(- " + a(0) + ")"
	case "fabs":
		return "(fpabs " + a(0) + ")"
	case "fceil":
		return "(- (to_real (to_int (- " + a(0) + "))))"
	case "fsqrt":
		p.nfp++
		r := fmt.Sprintf("fp!%d", p.nfp)
		e := a(0)
		p.addSide(t, "(>= "+e+" 0.0)")
		p.defs = append(p.defs, fmt.Sprintf("(declare-fun %s () Real)", r),
			fmt.Sprintf("(assert (and (>= %s 0.0) (<= (* %s %s) (* %s (+ 1.0 (/ 1.0 2251799813685248.0)))) (>= (* %s %s) (* %s (- 1.0 (/ 1.0 2251799813685248.0))))))", r, r, r, e, r, r, e))
		return r
	case "fisnan":
		if n := unb(0); n != "" {
			a(0)
			return n
		}
		return "false"
	case "fisinf":
		if x := t.Args[0]; x.Op == "var" {
			a(0) // a possibly infinite free variable: counted as a use outside a comparison
		}
		return "false"
	case "i2f":
		x := "(to_real " + a(0) + ")"
		if t.Args[0].Sort.K == SGoInt && t.Args[0].Sort.W <= 32 {
			return x // exact
		}
		// exact for |x| <= 2^53
		r := round(x)
		return "(ite (and (<= (- 9007199254740992) " + a(0) + ") (<= " + a(0) + " 9007199254740992)) " + x + " " + r + ")"
	case "f2i":
		p.helper("rtz", "(define-fun rtz ((r Real)) Int (ite (>= r 0.0) (to_int r) (- (to_int (- r)))))")
		return "(" + p.wrapFn(t.Sort) + " (rtz " + a(0) + "))"
	}
	panic("prRelaxed: " + t.Op)
}

func (p *smtPrinter) addSide(t *Term, c string) {
	if p.opSide == nil {
		p.opSide = map[*Term][]string{}
	}
	p.opSide[t] = append(p.opSide[t], c)
	p.side = append(p.side, c)
}

// sidesOf collects the side conditions of all float operations occurring in t.
func (p *smtPrinter) sidesOf(t *Term) []string {
	var out []string
	seen := map[*Term]bool{}
	var rec func(t *Term)
	rec = func(t *Term) {
		if seen[t] {
			return
		}
		seen[t] = true
		out = append(out, p.opSide[t]...)
		for _, a := range t.Args {
			rec(a)
		}
	}
	rec(t)
	return out
}

func pow2(n int) string { return new(big.Int).Lsh(big.NewInt(1), uint(n)).String() }

func (p *smtPrinter) prInt(t *Term, rec func(*Term) string) string {
	s := t.Sort
	wrap := func(x string) string {
		if s.K == SGoInt {
			return "(" + p.wrapFn(s) + " " + x + ")"
		}
		return x
	}
	a := func(i int) string { return rec(t.Args[i]) }
	switch t.Op {
	case "tsub":
		// (t.sec - u.sec)*1e9 + (t.nsec - u.nsec), saturated to the int64 range (time.Time.Sub)
		p.helper("clamp64", "(define-fun clamp64 ((x Int)) Int (ite (< x (- 9223372036854775808)) (- 9223372036854775808) (ite (> x 9223372036854775807) 9223372036854775807 x)))")
		return "(clamp64 (+ (* (- " + a(0) + " " + a(2) + ") 1000000000) (- " + a(1) + " " + a(3) + ")))"
	case "iadd":
		return "(+ " + a(0) + " " + a(1) + ")"
	case "isub":
		return "(- " + a(0) + " " + a(1) + ")"
	case "add":
		return wrap("(+ " + a(0) + " " + a(1) + ")")
	case "sub":
		return wrap("(- " + a(0) + " " + a(1) + ")")
	case "mul":
		return wrap("(* " + a(0) + " " + a(1) + ")")
	case "neg":
		return wrap("(- " + a(0) + ")")
	case "fldiv":
		return "(div " + a(0) + " " + a(1) + ")"
	case "flmod":
		return "(mod " + a(0) + " " + a(1) + ")"
	case "div":
		if s.K == SMath {
			return "(" + p.tdiv() + " " + a(0) + " " + a(1) + ")"
		}
		if !s.Signed {
			return "(div " + a(0) + " " + a(1) + ")"
		}
		if t.Args[1].isConst() && t.Args[1].Val.Sign() > 0 {
			// truncated division by a positive constant
			return "(ite (>= " + a(0) + " 0) (div " + a(0) + " " + a(1) + ") (- (div (- " + a(0) + ") " + a(1) + ")))"
		}
		return wrap("(" + p.tdiv() + " " + a(0) + " " + a(1) + ")")
	case "rem":
		if s.K == SMath {
			return "(- " + a(0) + " (* " + a(1) + " (" + p.tdiv() + " " + a(0) + " " + a(1) + ")))"
		}
		if !s.Signed {
			return "(mod " + a(0) + " " + a(1) + ")"
		}
		if t.Args[1].isConst() && t.Args[1].Val.Sign() > 0 {
			return "(ite (>= " + a(0) + " 0) (mod " + a(0) + " " + a(1) + ") (- (mod (- " + a(0) + ") " + a(1) + ")))"
		}
		return "(- " + a(0) + " (* " + a(1) + " (" + p.tdiv() + " " + a(0) + " " + a(1) + ")))"
	case "lt":
		return "(< " + a(0) + " " + a(1) + ")"
	case "le":
		return "(<= " + a(0) + " " + a(1) + ")"
	case "conv":
		from := t.Args[0].Sort
		if s.K == SMath {
			return a(0)
		}
		if from.K == SGoInt && from.lo().Cmp(s.lo()) >= 0 && from.hi().Cmp(s.hi()) <= 0 {
			return a(0)
		}
		return wrap(a(0))
	case "shl", "shr":
		c := t.Args[1]
		if c.isConst() && c.Val.Sign() >= 0 && c.Val.IsInt64() {
			n := c.Val.Int64()
			if n >= int64(s.W) {
				if t.Op == "shr" && s.Signed {
					return "(ite (< " + a(0) + " 0) (- 1) 0)"
				}
				return "0"
			}
			pw := new(big.Int).Lsh(big.NewInt(1), uint(n)).String()
			if t.Op == "shl" {
				return wrap("(* " + a(0) + " " + pw + ")")
			}
			return "(div " + a(0) + " " + pw + ")" // floor division == arithmetic/logical shift
		}
		// variable count: go through bit-vectors
		return p.bridge(t, rec)
	case "band":
		// x & (2^k - 1)  ==  x mod 2^k   (any sign, two's complement)
		for i := 0; i < 2; i++ {
			m := t.Args[i]
			if m.isConst() {
				u := toUnsigned(m.Val, s)
				k := new(big.Int).Add(u, big.NewInt(1))
				if k.Sign() > 0 && new(big.Int).And(k, u).Sign() == 0 && k.BitLen()-1 < s.W {
					return "(mod " + rec(t.Args[1-i]) + " " + k.String() + ")"
				}
			}
		}
		// x & ^(2^k - 1)  ==  x - (x mod 2^k)
		for i := 0; i < 2; i++ {
			m := t.Args[i]
			if m.isConst() {
				u := toUnsigned(m.Val, s)
				all := new(big.Int).Sub(new(big.Int).Lsh(big.NewInt(1), uint(s.W)), big.NewInt(1))
				inv := new(big.Int).Xor(u, all) // ^m
				k := new(big.Int).Add(inv, big.NewInt(1))
				if k.Sign() > 0 && new(big.Int).And(k, inv).Sign() == 0 && k.BitLen()-1 < s.W {
					x := rec(t.Args[1-i])
					return "(- " + x + " (mod " + x + " " + k.String() + "))"
				}
			}
		}
		return p.bridge(t, rec)
	case "bandnot":
		if m := t.Args[1]; m.isConst() {
			u := toUnsigned(m.Val, s)
			k := new(big.Int).Add(u, big.NewInt(1))
			if k.Sign() > 0 && new(big.Int).And(k, u).Sign() == 0 && k.BitLen()-1 < s.W {
				x := rec(t.Args[0])
				return "(- " + x + " (mod " + x + " " + k.String() + "))"
			}
		}
		return p.bridge(t, rec)
	case "bor":
		if sum, ok := p.disjointOr(t, rec); ok {
			return sum
		}
		return p.bridge(t, rec)
	case "bxor", "bnot":
		return p.bridge(t, rec)
	}
	panic("prInt: unknown op " + t.Op)
}

// disjointOr recognises  (x0 << k0) | (x1 << k1) | ...  where the xi are zero-extended narrower unsigned values
// occupying pairwise disjoint bit ranges inside the word: the result is the sum  x0*2^k0 + x1*2^k1 + ...
func (p *smtPrinter) disjointOr(t *Term, rec func(*Term) string) (string, bool) {
	s := t.Sort
	var leaves []*Term
	var collect func(x *Term)
	collect = func(x *Term) {
		if x.Op == "bor" && sameSort(x.Sort, s) {
			collect(x.Args[0])
			collect(x.Args[1])
			return
		}
		leaves = append(leaves, x)
	}
	collect(t)
	type piece struct {
		x *Term
		k int
		w int
	}
	var ps []piece
	used := make([]bool, s.W)
	for _, l := range leaves {
		k := 0
		x := l
		if x.Op == "shl" && x.Args[1].isConst() && x.Args[1].Val.IsInt64() && x.Args[1].Val.Sign() >= 0 {
			k = int(x.Args[1].Val.Int64())
			x = x.Args[0]
		}
		if x.isConst() && x.Val.Sign() == 0 {
			continue
		}
		if x.Op != "conv" || x.Args[0].Sort.K != SGoInt || x.Args[0].Sort.Signed {
			return "", false
		}
		w := x.Args[0].Sort.W
		if k+w > s.W || (s.Signed && k+w == s.W) {
			return "", false
		}
		for b := k; b < k+w; b++ {
			if used[b] {
				return "", false
			}
			used[b] = true
		}
		ps = append(ps, piece{x.Args[0], k, w})
	}
	if len(ps) == 0 {
		return "0", true
	}
	var parts []string
	for _, pc := range ps {
		if pc.k == 0 {
			parts = append(parts, rec(pc.x))
		} else {
			parts = append(parts, "(* "+rec(pc.x)+" "+pow2(pc.k)+")")
		}
	}
	if len(parts) == 1 {
		return parts[0], true
	}
	return "(+ " + strings.Join(parts, " ") + ")", true
}

// bridge prints a bit-level operation in Int mode through int2bv/bv2nat.
func (p *smtPrinter) bridge(t *Term, rec func(*Term) string) string {
	p.hasBV = true
	s := t.Sort
	tobv := func(x *Term) string {
		return fmt.Sprintf("((_ int2bv %d) %s)", s.W, rec(x))
	}
	var body string
	switch t.Op {
	case "band":
		body = "(bvand " + tobv(t.Args[0]) + " " + tobv(t.Args[1]) + ")"
	case "bor":
		body = "(bvor " + tobv(t.Args[0]) + " " + tobv(t.Args[1]) + ")"
	case "bxor":
		body = "(bvxor " + tobv(t.Args[0]) + " " + tobv(t.Args[1]) + ")"
	case "bandnot":
		body = "(bvand " + tobv(t.Args[0]) + " (bvnot " + tobv(t.Args[1]) + "))"
	case "bnot":
		body = "(bvnot " + tobv(t.Args[0]) + ")"
	case "shl", "shr":
		c := t.Args[1]
		cnt := fmt.Sprintf("((_ int2bv %d) (ite (>= %s %d) %d %s))", s.W, rec(c), s.W, s.W, rec(c))
		op := "bvshl"
		if t.Op == "shr" {
			op = "bvlshr"
			if s.Signed {
				op = "bvashr"
			}
		}
		body = "(" + op + " " + tobv(t.Args[0]) + " " + cnt + ")"
	}
	return "(" + p.wrapFn(s) + " (bv2nat " + body + "))"
}

func (p *smtPrinter) prBV(t *Term, rec func(*Term) string) string {
	s := t.Sort
	if s.K == SMath {
		// references and small spec integers may still appear: +,-,<,<= over Int are fine in mixed logic
		a := func(i int) string { return rec(t.Args[i]) }
		switch t.Op {
		case "add":
			return "(+ " + a(0) + " " + a(1) + ")"
		case "sub":
			return "(- " + a(0) + " " + a(1) + ")"
		case "mul":
			return "(* " + a(0) + " " + a(1) + ")"
		case "neg":
			return "(- " + a(0) + ")"
		case "fldiv":
			return "(div " + a(0) + " " + a(1) + ")"
		case "flmod":
			return "(mod " + a(0) + " " + a(1) + ")"
		case "div":
			return "(" + p.tdiv() + " " + a(0) + " " + a(1) + ")"
		case "rem":
			return "(- " + a(0) + " (* " + a(1) + " (" + p.tdiv() + " " + a(0) + " " + a(1) + ")))"
		case "conv":
			// GoInt -> Math
			f := t.Args[0].Sort
			if f.K == SGoInt {
				if f.Signed {
					p.hasBV = true
					return fmt.Sprintf("(let ((cv!x %s)) (ite (bvslt cv!x (_ bv0 %d)) (- (bv2nat cv!x) %s) (bv2nat cv!x)))", a(0), f.W, new(big.Int).Lsh(big.NewInt(1), uint(f.W)))
				}
				return "(bv2nat " + a(0) + ")"
			}
			return a(0)
		}
	}
	a := func(i int) string { return rec(t.Args[i]) }
	as := t.Args[0].Sort
	switch t.Op {
	case "tsub":
		se := func(x string) string { return "((_ sign_extend 64) " + x + ")" }
		d := "(bvadd (bvmul (bvsub " + se(a(0)) + " " + se(a(2)) + ") (_ bv1000000000 128)) (bvsub " + se(a(1)) + " " + se(a(3)) + "))"
		lo := "((_ sign_extend 64) (_ bv9223372036854775808 64))"
		hi := "((_ zero_extend 64) (_ bv9223372036854775807 64))"
		return "(let ((ts!d " + d + ")) ((_ extract 63 0) (ite (bvslt ts!d " + lo + ") " + lo + " (ite (bvsgt ts!d " + hi + ") " + hi + " ts!d))))"
	case "add", "iadd":
		return "(bvadd " + a(0) + " " + a(1) + ")"
	case "sub", "isub":
		return "(bvsub " + a(0) + " " + a(1) + ")"
	case "mul":
		return "(bvmul " + a(0) + " " + a(1) + ")"
	case "neg":
		return "(bvneg " + a(0) + ")"
	case "div":
		if s.Signed {
			return "(bvsdiv " + a(0) + " " + a(1) + ")"
		}
		return "(bvudiv " + a(0) + " " + a(1) + ")"
	case "rem":
		if s.Signed {
			return "(bvsrem " + a(0) + " " + a(1) + ")"
		}
		return "(bvurem " + a(0) + " " + a(1) + ")"
	case "band":
		return "(bvand " + a(0) + " " + a(1) + ")"
	case "bor":
		return "(bvor " + a(0) + " " + a(1) + ")"
	case "bxor":
		return "(bvxor " + a(0) + " " + a(1) + ")"
	case "bandnot":
		return "(bvand " + a(0) + " (bvnot " + a(1) + "))"
	case "bnot":
		return "(bvnot " + a(0) + ")"
	case "lt":
		if as.K == SMath {
			return "(< " + a(0) + " " + a(1) + ")"
		}
		if as.Signed {
			return "(bvslt " + a(0) + " " + a(1) + ")"
		}
		return "(bvult " + a(0) + " " + a(1) + ")"
	case "le":
		if as.K == SMath {
			return "(<= " + a(0) + " " + a(1) + ")"
		}
		if as.Signed {
			return "(bvsle " + a(0) + " " + a(1) + ")"
		}
		return "(bvule " + a(0) + " " + a(1) + ")"
	case "conv":
		from := as
		if from.K == SMath {
			p.hasBV = true
			return fmt.Sprintf("((_ int2bv %d) %s)", s.W, a(0))
		}
		switch {
		case s.W == from.W:
			return a(0)
		case s.W < from.W:
			return fmt.Sprintf("((_ extract %d 0) %s)", s.W-1, a(0))
		default:
			if from.Signed {
				return fmt.Sprintf("((_ sign_extend %d) %s)", s.W-from.W, a(0))
			}
			return fmt.Sprintf("((_ zero_extend %d) %s)", s.W-from.W, a(0))
		}
	case "shl", "shr":
		c := t.Args[1]
		cs := c.Sort
		var cnt string
		switch {
		case c.isConst() && c.Val.Sign() >= 0:
			n := c.Val
			if n.Cmp(big.NewInt(int64(s.W))) > 0 {
				n = big.NewInt(int64(s.W))
			}
			cnt = p.bvLit(n, s.W)
		case cs.W == s.W:
			cnt = rec(c)
		case cs.W < s.W:
			cnt = fmt.Sprintf("((_ zero_extend %d) %s)", s.W-cs.W, rec(c))
		default:
			// saturate then truncate
			cnt = fmt.Sprintf("(ite (bvuge %s %s) %s ((_ extract %d 0) %s))", rec(c), p.bvLit(big.NewInt(int64(s.W)), cs.W), p.bvLit(big.NewInt(int64(s.W)), s.W), s.W-1, rec(c))
		}
		op := "bvshl"
		if t.Op == "shr" {
			op = "bvlshr"
			if s.Signed {
				op = "bvashr"
			}
		}
		return "(" + op + " " + a(0) + " " + cnt + ")"
	}
	panic("prBV: unknown op " + t.Op)
}

// usesMath reports whether a term has unbounded-integer arithmetic that the BV encoding cannot express faithfully.
func featureScan(ts []*Term) (math, bits, fp, quant bool) {
	seen := map[*Term]bool{}
	var rec func(t *Term)
	rec = func(t *Term) {
		if seen[t] {
			return
		}
		seen[t] = true
		switch t.Op {
		case "mul", "div", "rem", "fldiv", "flmod":
			if t.Sort.K == SMath {
				math = true
			}
		case "conv":
			if t.Sort.K == SMath && t.Args[0].Sort.K == SGoInt || t.Sort.K == SGoInt && t.Args[0].Sort.K == SMath {
				math = true
			}
		case "bor", "bxor", "bandnot", "bnot":
			bits = true
		case "band":
			bits = true
		case "shl", "shr":
			if !t.Args[1].isConst() {
				bits = true
			}
		case "forall", "exists":
			quant = true
		}
		if t.Sort.K == SFP {
			fp = true
		}
		for _, a := range t.Args {
			rec(a)
		}
	}
	for _, t := range ts {
		rec(t)
	}
	return
}

// script builds a complete SMT-LIB query: facts /\ not goal.  values: terms whose model value is requested.
func buildScript(mode Mode, facts []*Term, goal *Term, values []*Term, forCVC5 bool) (string, error) {
	var res string
	var err error
	func() {
		defer func() {
			if r := recover(); r != nil {
				if e, ok := r.(errInexpressible); ok {
					err = e
					return
				}
				panic(r)
			}
		}()
		p := newSmtPrinter(mode)
		var asserts []string
		all := append([]*Term{}, facts...)
		neg := mkNot(goal)
		all = append(all, neg)
		// count refs across everything so that sharing across facts is captured
		seen := map[*Term]bool{}
		for _, f := range all {
			p.countRefs(f, seen)
		}
		for _, v := range values {
			p.countRefs(v, seen)
		}
		bound := map[string]bool{}
		bs := map[*Term]bool{}
		for _, f := range all {
			collectBound(f, bound, bs)
		}
		bc := map[*Term]bool{}
		goalIdx := -1
		var printed []*Term
		p.finite = finiteFloatVars(facts)
		p.qbound = bound
		p.unbUses, p.unbCmpUses = map[string]int{}, map[string]int{}
		for i, f := range all {
			if f.isTrue() {
				continue
			}
			if i == len(all)-1 {
				goalIdx = len(asserts)
			}
			asserts = append(asserts, p.pr(f, bound, bc))
			printed = append(printed, f)
		}
		var vals []string
		for _, v := range values {
			vals = append(vals, p.pr(v, bound, bc))
		}
		if p.relaxed {
			// The relaxed encoding reads a float as a real number: it has no NaN and no infinity. A free float variable
			// that no hypothesis bounds on both sides may be NaN: it gets a Boolean v!nan, may occur only as a direct
			// operand of a comparison (false when v!nan; an infinity compares like a real beyond every constant), and
			// any other occurrence makes the relaxed encoding inadmissible (the IEEE-754 encoding decides the goal then).
			// Without this, !(w <= 3) would wrongly yield w > 3 for a NaN w.
			for _, n := range p.fpVars {
				if !bound[n] && !p.finite[n] && p.unbUses[n] != p.unbCmpUses[n] {
					if os.Getenv("GOVC_DEBUG_FP") != "" {
						fmt.Fprintln(os.Stderr, "relaxed refused:", n, p.unbUses[n], p.unbCmpUses[n])
					}
					panic(errInexpressible{"float variable " + n + " not bounded by the hypotheses (may be NaN or infinite) and used outside a comparison: relaxed encoding not admissible"})
				}
			}
		}
		for k := range asserts {
			body := asserts[k]
			if p.relaxed {
				// a relaxed fact is used only where the rounding model applies to all of its float operations;
				// the (negated) goal additionally has to establish that
				if sd := p.sidesOf(printed[k]); len(sd) > 0 {
					cond := "(and " + strings.Join(sd, " ") + ")"
					if k == goalIdx {
						// printed[k] is (not goal): refute  goal /\ sides
						body = "(or " + body + " (not " + cond + "))"
					} else {
						body = "(=> " + cond + " " + body + ")"
					}
				}
			}
			asserts[k] = "(assert " + body + ")"
		}
		var sb strings.Builder
		if forCVC5 {
			sb.WriteString("(set-option :produce-models true)\n(set-logic ALL)\n")
		} else {
			sb.WriteString("(set-option :produce-models true)\n")
		}
		// decls and defs must be interleaved in creation order: defs may reference decls and later decls are independent.
		// decls never reference defs, so all decls first is fine.
		for _, d := range p.decls {
			sb.WriteString(d + "\n")
		}
		for _, d := range p.defs {
			sb.WriteString(d + "\n")
		}
		for _, a := range asserts {
			sb.WriteString(a + "\n")
		}
		sb.WriteString("(check-sat)\n")
		if len(vals) > 0 {
			sb.WriteString("(get-value (" + strings.Join(vals, " ") + "))\n")
		}
		res = sb.String()
	}()
	return res, err
}

func sortedKeys[V any](m map[string]V) []string {
	ks := make([]string, 0, len(m))
	for k := range m {
		ks = append(ks, k)
	}
	sort.Strings(ks)
	return ks
}

// splitGoal breaks a proof goal into independently provable parts: conjunctions are split, and a universally
// quantified goal forall x. H => (A /\ B) becomes forall x. H => A and forall x. H => B (patterns restricted to the
// terms that still occur).
func splitGoal(g *Term) []*Term {
	switch g.Op {
	case "and":
		var out []*Term
		for _, a := range g.Args {
			out = append(out, splitGoal(a)...)
		}
		return out
	case "forall":
		body := g.Args[0]
		var hyp []*Term
		for body.Op == "=>" {
			hyp = append(hyp, body.Args[0])
			body = body.Args[1]
		}
		parts := splitGoal(body)
		if len(parts) <= 1 {
			return []*Term{g}
		}
		var out []*Term
		for _, p := range parts {
			b := p
			for i := len(hyp) - 1; i >= 0; i-- {
				b = mkImplies(hyp[i], b)
			}
			var pats [][]*Term
			for _, pat := range g.Pats {
				ok := true
				for _, pt := range pat {
					if !occursIn(pt, b) {
						ok = false
					}
				}
				if ok {
					pats = append(pats, pat)
				}
			}
			out = append(out, mkQuant("forall", g.Bound, b, pats...))
		}
		return out
	case "=>":
		parts := splitGoal(g.Args[1])
		if len(parts) <= 1 {
			return []*Term{g}
		}
		var out []*Term
		for _, p := range parts {
			out = append(out, mkImplies(g.Args[0], p))
		}
		return out
	}
	return []*Term{g}
}

func occursIn(x, t *Term) bool {
	seen := map[*Term]bool{}
	var rec func(t *Term) bool
	rec = func(t *Term) bool {
		if t == x {
			return true
		}
		if seen[t] {
			return false
		}
		seen[t] = true
		for _, a := range t.Args {
			if rec(a) {
				return true
			}
		}
		return false
	}
	return rec(t)
}

func hasBoolOp(t *Term) bool {
	seen := map[*Term]bool{}
	var rec func(t *Term) bool
	rec = func(t *Term) bool {
		if seen[t] {
			return false
		}
		seen[t] = true
		switch t.Op {
		case "and", "or", "not", "=>", "forall", "exists":
			return true
		}
		for _, a := range t.Args {
			if rec(a) {
				return true
			}
		}
		return false
	}
	return rec(t)
}

// finiteFloatVars returns the float variables that the top-level conjuncts of the facts bound from below and from above
// by finite constants (or equate with one).
func finiteFloatVars(facts []*Term) map[string]bool {
	lo, hi := map[string]bool{}, map[string]bool{}
	isC := func(t *Term) bool {
		return t.Op == "const" && t.Sort.K == SFP && !math.IsNaN(t.F) && !math.IsInf(t.F, 0)
	}
	isV := func(t *Term) bool { return t.Op == "var" && t.Sort.K == SFP }
	var walk func(t *Term)
	walk = func(t *Term) {
		switch t.Op {
		case "and":
			for _, a := range t.Args {
				walk(a)
			}
		case "fle", "flt":
			if isC(t.Args[0]) && isV(t.Args[1]) {
				lo[t.Args[1].Name] = true
			}
			if isV(t.Args[0]) && isC(t.Args[1]) {
				hi[t.Args[0].Name] = true
			}
		case "feq":
			for i := 0; i < 2; i++ {
				if isV(t.Args[i]) && isC(t.Args[1-i]) {
					lo[t.Args[i].Name], hi[t.Args[i].Name] = true, true
				}
			}
		}
	}
	for _, f := range facts {
		walk(f)
	}
	out := map[string]bool{}
	for n := range lo {
		if hi[n] {
			out[n] = true
		}
	}
	// A variable that names the result of a float computation (its definition is a fact of the path: Duration.Seconds,
	// math.Ceil, named intermediate results) is as finite as that computation, which the relaxed encoding already
	// guards with the side conditions of its operations; only genuinely free inputs need a bound.
	// Scope of the guard: the function's own inputs (parameters and entry values of fields). Values produced along the
	// path (names carrying '!': results havocked by a callee's contract or a loop) are still taken as finite - an
	// assumption of the relaxed encoding that stays listed in DESIGN.md 0.9.
	for _, f := range facts {
		collectFPVars(f, func(n string) {
			if strings.Contains(n, "!") {
				out[n] = true
			}
		}, map[*Term]bool{})
	}
	for eq := range defFacts {
		if len(eq.Args) == 2 && isV(eq.Args[0]) {
			out[eq.Args[0].Name] = true
		}
	}
	return out
}

func collectFPVars(t *Term, f func(string), seen map[*Term]bool) {
	if seen[t] {
		return
	}
	seen[t] = true
	if t.Op == "var" && t.Sort.K == SFP {
		f(t.Name)
	}
	for _, a := range t.Args {
		collectFPVars(a, f, seen)
	}
}
