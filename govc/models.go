package main

// Assumed contracts for functions outside /repo, written as Go code over the term IR.
// Every model used in a run is listed in the evidence as an assumption.

import (
	"go/ast"
	"go/token"
	"go/types"
	"math/big"
	"strings"
)

type model struct {
	desc   string
	call   func(ex *Exec, st *State, call *ast.CallExpr, recv *Value, args []Value) []Value
	writes func(call *ast.CallExpr, info *types.Info, w *writes)
}

var models = map[string]*model{}

// parserLayers: the layer expressions registered with a gopacket.DecodingLayerParser created in the function under
// verification (keyed by the parser's reference term)
var parserLayers = map[*Term][]ast.Expr{}

func lookupModel(fn *types.Func) *model {
	if o := fn.Origin(); o != nil {
		fn = o
	}
	name := fn.FullName()
	if m, ok := models[name]; ok {
		return m
	}
	return nil
}

func reg(name, desc string, call func(ex *Exec, st *State, call *ast.CallExpr, recv *Value, args []Value) []Value) *model {
	m := &model{desc: desc}
	m.call = func(ex *Exec, st *State, c *ast.CallExpr, recv *Value, args []Value) []Value {
		ex.note("model " + name + ": " + desc)
		return call(ex, st, c, recv, args)
	}
	models[name] = m
	return m
}

var i64 = goInt(64, true)

func mathC(v int64) *Term  { return mkInt(sortMath, v) }
func toMath(t *Term) *Term { return mkConv(t, sortMath) }

const nsPerSec = 1000000000

func timeNS(t Value) *Term {
	return mkArith("add", mkArith("mul", toMath(t.L[".sec"]), mathC(nsPerSec)), toMath(t.L[".nsec"]))
}

func clampI64(x *Term) *Term {
	lo := mkIntBig(sortMath, i64.lo())
	hi := mkIntBig(sortMath, i64.hi())
	return mkConv(mkIte(mkCmp("lt", x, lo), lo, mkIte(mkCmp("lt", hi, x), hi, x)), i64)
}

func timeLess(a, b Value) *Term {
	return mkOr(mkCmp("lt", a.L[".sec"], b.L[".sec"]), mkAnd(mkEq(a.L[".sec"], b.L[".sec"]), mkCmp("lt", a.L[".nsec"], b.L[".nsec"])))
}

// floor division / modulo of a math integer by a positive constant
func floorDivC(x *Term, c int64) *Term { return mkArith("fldiv", x, mathC(c)) }
func floorModC(x *Term, c int64) *Term { return mkArith("flmod", x, mathC(c)) }

func mkTime(t types.Type, sec, nsec *Term) Value {
	return Value{T: t, L: map[string]*Term{".sec": sec, ".nsec": nsec}}
}

// timeAddDur mirrors time.Time.Add in int64 arithmetic: dsec = d/1e9, nsec += d%1e9 with one carry/borrow; seconds wrap.
func timeAddDur(t types.Type, base Value, d *Term) Value {
	e9 := mkInt(i64, nsPerSec)
	dsec := mkArith("div", d, e9)
	nsec := mkArith("add", base.L[".nsec"], mkArith("rem", d, e9))
	hi := mkCmp("le", e9, nsec)
	lo := mkCmp("lt", nsec, mkInt(i64, 0))
	one := mkInt(i64, 1)
	dsec2 := mkIte(hi, mkArith("add", dsec, one), mkIte(lo, mkArith("sub", dsec, one), dsec))
	nsec2 := mkIte(hi, mkArith("sub", nsec, e9), mkIte(lo, mkArith("add", nsec, e9), nsec))
	return mkTime(t, mkArith("add", base.L[".sec"], dsec2), nsec2)
}

// timeUnix mirrors time.Unix(sec, nsec): normalises nsec into [0, 1e9) in int64 arithmetic.
func timeUnix(t types.Type, sec, nsec *Term) Value {
	e9 := mkInt(i64, nsPerSec)
	zero := mkInt(i64, 0)
	out := mkOr(mkCmp("lt", nsec, zero), mkCmp("le", e9, nsec))
	n := mkArith("div", nsec, e9)
	sec1 := mkArith("add", sec, n)
	nsec1 := mkArith("sub", nsec, mkArith("mul", n, e9))
	neg := mkCmp("lt", nsec1, zero)
	sec2 := mkIte(neg, mkArith("sub", sec1, mkInt(i64, 1)), sec1)
	nsec2 := mkIte(neg, mkArith("add", nsec1, e9), nsec1)
	return mkTime(t, mkIte(out, sec2, sec), mkIte(out, nsec2, nsec))
}

func timeType(ex *Exec) types.Type { return ex.vc.timeT }

func init() {
	reg("(time.Time).Unix", "seconds since the Unix epoch", func(ex *Exec, st *State, c *ast.CallExpr, r *Value, a []Value) []Value {
		return []Value{scalarV(types.Typ[types.Int64], r.L[".sec"])}
	})
	reg("(time.Time).Nanosecond", "sub-second nanoseconds in [0,1e9)", func(ex *Exec, st *State, c *ast.CallExpr, r *Value, a []Value) []Value {
		return []Value{scalarV(types.Typ[types.Int], r.L[".nsec"])}
	})
	reg("(time.Time).UnixNano", "sec*1e9+nsec wrapped to int64", func(ex *Exec, st *State, c *ast.CallExpr, r *Value, a []Value) []Value {
		return []Value{scalarV(types.Typ[types.Int64], mkConv(timeNS(*r), i64))}
	})
	reg("(time.Time).Sub", "t-u in nanoseconds, saturating at the int64 range", func(ex *Exec, st *State, c *ast.CallExpr, r *Value, a []Value) []Value {
		return []Value{scalarV(ex.vc.durT, timeSubTerm(*r, a[0]))}
	})
	reg("(time.Time).Add", "t+d, normalised; seconds wrap like the internal int64", func(ex *Exec, st *State, c *ast.CallExpr, r *Value, a []Value) []Value {
		return []Value{timeAddDur(r.T, *r, a[0].scalar())}
	})
	reg("(time.Time).Before", "instant comparison", func(ex *Exec, st *State, c *ast.CallExpr, r *Value, a []Value) []Value {
		return []Value{boolV(timeLess(*r, a[0]))}
	})
	reg("(time.Time).After", "instant comparison", func(ex *Exec, st *State, c *ast.CallExpr, r *Value, a []Value) []Value {
		return []Value{boolV(timeLess(a[0], *r))}
	})
	reg("(time.Time).Equal", "instant comparison", func(ex *Exec, st *State, c *ast.CallExpr, r *Value, a []Value) []Value {
		return []Value{boolV(mkAnd(mkEq(r.L[".sec"], a[0].L[".sec"]), mkEq(r.L[".nsec"], a[0].L[".nsec"])))}
	})
	reg("(time.Time).Compare", "instant comparison", func(ex *Exec, st *State, c *ast.CallExpr, r *Value, a []Value) []Value {
		return []Value{scalarV(types.Typ[types.Int], mkIte(timeLess(*r, a[0]), mkInt(sortInt, -1), mkIte(timeLess(a[0], *r), mkInt(sortInt, 1), mkInt(sortInt, 0))))}
	})
	reg("(time.Time).IsZero", "January 1, year 1", func(ex *Exec, st *State, c *ast.CallExpr, r *Value, a []Value) []Value {
		return []Value{boolV(mkAnd(mkEq(r.L[".sec"], mkInt(i64, zeroTimeSec)), mkEq(r.L[".nsec"], mkInt(i64, 0))))}
	})
	for _, n := range []string{"UTC", "Local", "Round0"} {
		reg("(time.Time)."+n, "identity on the instant", func(ex *Exec, st *State, c *ast.CallExpr, r *Value, a []Value) []Value {
			return []Value{*r}
		})
	}
	reg("time.Unix", "normalises nsec into [0,1e9)", func(ex *Exec, st *State, c *ast.CallExpr, r *Value, a []Value) []Value {
		return []Value{timeUnix(ex.vc.timeT, a[0].scalar(), a[1].scalar())}
	})
	reg("time.Now", "an arbitrary valid instant, not earlier than the previous reading on the same path (monotonic clock reading)", func(ex *Exec, st *State, c *ast.CallExpr, r *Value, a []Value) []Value {
		return []Value{ex.advanceClock(st)}
	})
	reg("(time.Duration).Abs", "absolute value; MinInt64 maps to MaxInt64", func(ex *Exec, st *State, c *ast.CallExpr, r *Value, a []Value) []Value {
		d := r.scalar()
		return []Value{scalarV(r.T, mkIte(mkCmp("le", mkInt(i64, 0), d), d, mkIte(mkEq(d, mkIntBig(i64, i64.lo())), mkIntBig(i64, i64.hi()), mkNeg(d))))}
	})
	reg("(time.Duration).Seconds", "float64(d/1e9) + float64(d%1e9)/1e9", func(ex *Exec, st *State, c *ast.CallExpr, r *Value, a []Value) []Value {
		d := r.scalar()
		q := mkArith("div", d, mkInt(i64, nsPerSec))
		m := mkArith("rem", d, mkInt(i64, nsPerSec))
		def := mk("fadd", sortFP, mkConv(q, sortFP), mk("fdiv", sortFP, mkConv(m, sortFP), mkFP(1e9)))
		// the result is named; its definition and some of its consequences (solver hints, see selftest/model_lemmas) are facts
		sv := freshVar("seconds", sortFP)
		eq := mk("=", sortBool, sv, def)
		defFacts[eq] = true
		st.assume(eq)
		z := mkInt(i64, 0)
		fz := mkFP(0)
		ex.note("hints for Duration.Seconds (consequences of its definition): sign agreement with d, |s - float64(d/1e9)| <= 1, |s| <= 9223372037")
		// the hints follow from the definition whatever the path: they are stated under the definition, globally
		hint := func(f *Term) { addGlobalFact(f) }
		hint(mkImplies(mkCmp("le", z, d), mkCmp("le", fz, sv)))
		hint(mkImplies(mkCmp("le", d, z), mkCmp("le", sv, fz)))
		hint(mkImplies(mkCmp("lt", z, d), mkCmp("lt", fz, sv)))
		hint(mkImplies(mkCmp("lt", d, z), mkCmp("lt", sv, fz)))
		hint(mkCmp("le", sv, mk("fadd", sortFP, mkConv(q, sortFP), mkFP(1))))
		hint(mkCmp("le", mk("fsub", sortFP, mkConv(q, sortFP), mkFP(1)), sv))
		hint(mkCmp("le", sv, mkFP(9223372037)))
		hint(mkCmp("le", mkFP(-9223372037), sv))
		return []Value{scalarV(types.Typ[types.Float64], sv)}
	})
	for n, div := range map[string]int64{"Nanoseconds": 1, "Microseconds": 1000, "Milliseconds": 1000000} {
		div := div
		reg("(time.Duration)."+n, "integer division", func(ex *Exec, st *State, c *ast.CallExpr, r *Value, a []Value) []Value {
			return []Value{scalarV(types.Typ[types.Int64], mkArith("div", r.scalar(), mkInt(i64, div)))}
		})
	}
	// encoding/binary
	for _, e := range []struct {
		name string
		big  bool
	}{{"bigEndian", true}, {"littleEndian", false}} {
		for _, w := range []int{16, 32, 64} {
			w := w
			isBig := e.big
			us := goInt(w, false)
			reg("(encoding/binary."+e.name+").Uint"+itoa(w), "reads w/8 bytes; panics (index out of range) if the slice is shorter", func(ex *Exec, st *State, c *ast.CallExpr, r *Value, a []Value) []Value {
				b := a[0]
				nb := w / 8
				ex.check(st, mkCmp("le", mkInt(sortInt, int64(nb)), b.L[".len"]), "safety:index", c, "")
				bt := types.Typ[types.Byte]
				arr := st.regionArr(bt, leavesOf(bt)[0], b.L[".ref"])
				acc := mkInt(us, 0)
				for i := 0; i < nb; i++ {
					sh := 8 * i
					if isBig {
						sh = 8 * (nb - 1 - i)
					}
					by := mkSelect(arr, idxAdd(b.L[".off"], mkInt(sortInt, int64(i))))
					acc = mkArith("bor", acc, mkShift("shl", mkConv(by, us), mkInt(us, int64(sh))))
				}
				return []Value{scalarV(c2t(ex, c), acc)}
			})
			m := reg("(encoding/binary."+e.name+").PutUint"+itoa(w), "writes w/8 bytes; panics if the slice is shorter", func(ex *Exec, st *State, c *ast.CallExpr, r *Value, a []Value) []Value {
				b := a[0]
				v := a[1].scalar()
				nb := w / 8
				ex.check(st, mkCmp("le", mkInt(sortInt, int64(nb)), b.L[".len"]), "safety:index", c, "")
				bt := types.Typ[types.Byte]
				for i := 0; i < nb; i++ {
					sh := 8 * i
					if isBig {
						sh = 8 * (nb - 1 - i)
					}
					by := mkConv(mkShift("shr", v, mkInt(us, int64(sh))), goInt(8, false))
					lv := &LValue{kind: lvElem, rootT: bt, ref: b.L[".ref"], idx: idxAdd(b.L[".off"], mkInt(sortInt, int64(i)))}
					if i == 0 {
						ex.frameCheck(lv, st, c)
					}
					st.writeLV(lv, scalarV(bt, by))
				}
				return nil
			})
			m.writes = func(call *ast.CallExpr, info *types.Info, w *writes) {
				w.fams["R|"+typeKey(types.Typ[types.Byte])+"|"] = true
			}
		}
	}
	reg("bytes.Equal", "element-wise equality of equal-length slices", func(ex *Exec, st *State, c *ast.CallExpr, r *Value, a []Value) []Value {
		return []Value{boolV(bytesEqualTerm(st, a[0], a[1]))}
	})
	reg("errors.New", "a non-nil error", nonNilErr)
	reg("fmt.Errorf", "a non-nil error", nonNilErr)
	reg("math.Sqrt", "IEEE-754 square root", func(ex *Exec, st *State, c *ast.CallExpr, r *Value, a []Value) []Value {
		return []Value{scalarV(types.Typ[types.Float64], mk("fsqrt", sortFP, a[0].scalar()))}
	})
	reg("math.Ceil", "round toward +Inf", func(ex *Exec, st *State, c *ast.CallExpr, r *Value, a []Value) []Value {
		x := a[0].scalar()
		cv := freshVar("ceil", sortFP)
		eq := mk("=", sortBool, cv, mk("fceil", sortFP, x))
		defFacts[eq] = true
		st.assume(eq)
		ex.note("hints for math.Ceil (consequences of its definition): x <= ceil(x) <= x+1 for |x| <= 2^52, ceil(x) >= 1 for x > 0, finite for finite x")
		fin := func(t *Term) *Term { return mkAnd(mkNot(mk("fisnan", sortBool, t)), mkNot(mk("fisinf", sortBool, t))) }
		addGlobalFact(mkImplies(fin(x), mkAnd(fin(cv), mkCmp("le", x, cv))))
		addGlobalFact(mkImplies(mkAnd(mkCmp("le", mkFP(-4503599627370496), x), mkCmp("le", x, mkFP(4503599627370496))), mkCmp("le", cv, mk("fadd", sortFP, x, mkFP(1)))))
		addGlobalFact(mkImplies(mkCmp("lt", mkFP(0), x), mkCmp("le", mkFP(1), cv)))
		return []Value{scalarV(types.Typ[types.Float64], cv)}
	})
	reg("math.Abs", "IEEE-754 abs", func(ex *Exec, st *State, c *ast.CallExpr, r *Value, a []Value) []Value {
		return []Value{scalarV(types.Typ[types.Float64], mk("fabs", sortFP, a[0].scalar()))}
	})
	reg("math.Pow", "uninterpreted; for 0 < x <= 1 and y >= 0 the result is in [0,1]", func(ex *Exec, st *State, c *ast.CallExpr, r *Value, a []Value) []Value {
		x, y := a[0].scalar(), a[1].scalar()
		res := mkApp("math.Pow", sortFP, x, y)
		addGlobalFact(mkImplies(mkAnd(mkCmp("lt", mkFP(0), x), mkCmp("le", x, mkFP(1)), mkCmp("le", mkFP(0), y)),
			mkAnd(mkCmp("le", mkFP(0), res), mkCmp("le", res, mkFP(1)))))
		return []Value{scalarV(types.Typ[types.Float64], res)}
	})
	reg("cmp.Compare", "-1, 0 or +1 by the natural order (integers)", func(ex *Exec, st *State, c *ast.CallExpr, r *Value, a []Value) []Value {
		x, y := a[0].scalar(), a[1].scalar()
		return []Value{scalarV(types.Typ[types.Int], mkIte(mkCmp("lt", x, y), mkInt(sortInt, -1), mkIte(mkCmp("lt", y, x), mkInt(sortInt, 1), mkInt(sortInt, 0))))}
	})
	mr := reg("crypto/rand.Read", "fills the slice with arbitrary bytes; never fails (documented since Go 1.24)", func(ex *Exec, st *State, c *ast.CallExpr, r *Value, a []Value) []Value {
		b := a[0]
		bt := types.Typ[types.Byte]
		lv := &LValue{kind: lvElem, rootT: bt, ref: b.L[".ref"], idx: b.L[".off"]}
		ex.frameCheck(lv, st, c)
		ex.havocRange(st, bt, b.L[".ref"])
		// Go >= 1.24: "It never returns an error, and always fills b entirely."
		return []Value{scalarV(types.Typ[types.Int], b.L[".len"]), scalarV(ex.vc.errT, mathC(0))}
	})
	mr.writes = func(call *ast.CallExpr, info *types.Info, w *writes) {
		w.fams["R|"+typeKey(types.Typ[types.Byte])+"|"] = true
	}
	// ---- UDP sockets: sources and sinks of arbitrary datagrams ----
	{
		bt := types.Typ[types.Byte]
		snapshot := func(ex *Exec, st *State, b Value, n *Term) Value {
			// an exact copy of the buffer's backing array at this moment, seen through (off, n)
			ref := st.newRef()
			gl := leavesOf(ghostByteT)
			for i, l := range leavesOf(bt) {
				st.setRegionArr(ghostByteT, gl[i], ref, st.regionArr(bt, l, b.L[".ref"]))
			}
			return Value{T: types.NewSlice(ghostByteT), L: map[string]*Term{".ref": ref, ".off": b.L[".off"], ".len": n, ".cap": n}}
		}
		rd := reg("(*net.UDPConn).ReadMsgUDPAddrPort", "receives an arbitrary datagram: 0 <= n <= len(b), 0 <= oobn <= len(oob), contents of b and oob arbitrary, flags, source and error arbitrary; ghost lastpkt() = b[:n] as received", func(ex *Exec, st *State, c *ast.CallExpr, r *Value, a []Value) []Value {
			sig := ex.info().TypeOf(c.Fun).(*types.Signature)
			b, oob := a[0], a[1]
			for _, x := range []Value{b, oob} {
				lv := &LValue{kind: lvElem, rootT: bt, ref: x.L[".ref"], idx: x.L[".off"]}
				ex.frameCheck(lv, st, c)
				ex.havocRange(st, bt, x.L[".ref"])
			}
			var res []Value
			for i := 0; i < sig.Results().Len(); i++ {
				v := freshValue("recv", sig.Results().At(i).Type())
				st.assumeValid(v)
				res = append(res, v)
			}
			n, oobn := res[0].scalar(), res[1].scalar()
			st.assume(mkAnd(mkCmp("le", mkInt(sortInt, 0), n), mkCmp("le", n, b.L[".len"])))
			st.assume(mkAnd(mkCmp("le", mkInt(sortInt, 0), oobn), mkCmp("le", oobn, oob.L[".len"])))
			st.ghost["net.lastpkt"] = snapshot(ex, st, b, n)
			st.ghost["net.lastok"] = boolV(mkAnd(mkEq(res[4].scalar(), mkInt(sortRef, 0)), mkEq(res[2].scalar(), mkInt(sortInt, 0))))
			return res
		})
		rd.writes = func(call *ast.CallExpr, info *types.Info, w *writes) {
			w.fams["R|"+typeKey(bt)+"|"] = true
		}
		reg("(*net.UDPConn).WriteToUDPAddrPort", "sends b: result (n, err) arbitrary with 0 <= n <= len(b); ghost lastsent() = b as sent", func(ex *Exec, st *State, c *ast.CallExpr, r *Value, a []Value) []Value {
			b := a[0]
			st.ghost["net.lastsent"] = snapshot(ex, st, b, b.L[".len"])
			n := freshValue("sent", types.Typ[types.Int])
			st.assumeValid(n)
			st.assume(mkAnd(mkCmp("le", mkInt(sortInt, 0), n.scalar()), mkCmp("le", n.scalar(), b.L[".len"])))
			e := freshValue("senderr", ex.vc.errT)
			st.assumeValid(e)
			return []Value{n, e}
		})
		reg("(*net.ListenConfig).ListenPacket", "returns a fresh non-nil *net.UDPConn (network \"udp\") or an error", func(ex *Exec, st *State, c *ast.CallExpr, r *Value, a []Value) []Value {
			sig := ex.info().TypeOf(c.Fun).(*types.Signature)
			// the dynamic type of the result is *net.UDPConn: the project only listens on "udp"
			var connT types.Type
			for _, p := range ex.vc.pkgs {
				if ip, ok := p.Imports["net"]; ok {
					if o := ip.Types.Scope().Lookup("UDPConn"); o != nil {
						connT = types.NewPointer(o.Type())
					}
				}
			}
			if connT == nil {
				unsupp("net.UDPConn not found")
			}
			e := freshValue("listenerr", ex.vc.errT)
			st.assumeValid(e)
			ref := st.newRef()
			cv := scalarV(connT, ref)
			boxed := ex.toInterface(cv, sig.Results().At(0).Type(), st)
			isErr := mkNot(mkEq(e.scalar(), mkInt(sortRef, 0)))
			res := scalarV(sig.Results().At(0).Type(), mkIte(isErr, mkInt(sortRef, 0), boxed.scalar()))
			return []Value{res, e}
		})
		for _, nm := range []string{"(*net.UDPConn).Close", "(*net.UDPConn).SetDeadline", "(*net.UDPConn).SetReadDeadline", "(*net.conn).Close", "(*net.conn).SetDeadline", "(*net.conn).SetReadDeadline"} {
			reg(nm, "no effect on tracked state; error arbitrary", func(ex *Exec, st *State, c *ast.CallExpr, r *Value, a []Value) []Value {
				e := freshValue("neterr", ex.vc.errT)
				st.assumeValid(e)
				return []Value{e}
			})
		}
	}
	reg("net/netip.AddrFromSlice", "ok exactly for slices of 4 or 16 bytes; the address value itself is opaque", func(ex *Exec, st *State, c *ast.CallExpr, r *Value, a []Value) []Value {
		sig := ex.info().TypeOf(c.Fun).(*types.Signature)
		av := freshValue("addr", sig.Results().At(0).Type())
		st.assumeValid(av)
		n := a[0].L[".len"]
		ok := mkOr(mkEq(n, mkInt(sortInt, 4)), mkEq(n, mkInt(sortInt, 16)))
		return []Value{av, boolV(ok)}
	})
	// ---- gopacket: the decoding layer parser fills the layer values registered with it ----
	reg("github.com/google/gopacket.NewDecodingLayerParser", "returns a fresh parser that remembers the layers (&x arguments) it decodes into", func(ex *Exec, st *State, c *ast.CallExpr, r *Value, a []Value) []Value {
		sig := ex.info().TypeOf(c.Fun).(*types.Signature)
		ref := st.newRef()
		var lvs []ast.Expr
		for _, arg := range c.Args[1:] {
			u, ok := ast.Unparen(arg).(*ast.UnaryExpr)
			if !ok || u.Op != token.AND {
				unsupp("NewDecodingLayerParser: layer argument must have the form &x")
			}
			lvs = append(lvs, u.X)
		}
		parserLayers[ref] = lvs
		return []Value{scalarV(sig.Results().At(0).Type(), ref)}
	})
	dl := reg("(*github.com/google/gopacket.DecodingLayerParser).DecodeLayers", "decodes arbitrary data: every registered layer value and the list of decoded layer types become arbitrary (valid) values; error arbitrary", func(ex *Exec, st *State, c *ast.CallExpr, r *Value, a []Value) []Value {
		lvs, ok := parserLayers[r.scalar()]
		if !ok {
			unsupp("DecodeLayers on a parser that was not created in this function")
		}
		for _, x := range lvs {
			lv := ex.lvalue(x, st)
			nv := freshValue("layer", lv.typ())
			st.assumeValid(nv)
			ex.assign(lv, nv, st, c)
			// ghost lastreadof(T): the layer as decoded
			st.ghost["bin.last:"+typeKey(lv.typ())] = nv
		}
		// *decoded
		if u, ok := ast.Unparen(c.Args[1]).(*ast.UnaryExpr); ok && u.Op == token.AND {
			lv := ex.lvalue(u.X, st)
			nv := freshValue("decoded", lv.typ())
			st.assumeValid(nv)
			ex.assign(lv, nv, st, c)
			if sl, ok := lv.typ().Underlying().(*types.Slice); ok {
				ex.havocRange(st, sl.Elem(), nv.L[".ref"])
			}
		} else {
			unsupp("DecodeLayers: decoded argument must have the form &x")
		}
		e := freshValue("decodeerr", ex.vc.errT)
		st.assumeValid(e)
		return []Value{e}
	})
	dl.writes = func(call *ast.CallExpr, info *types.Info, w *writes) {
		w.layerParser = true
	}
	reg("(*net.conn).LocalAddr", "on a *net.UDPConn: returns a non-nil *net.UDPAddr", func(ex *Exec, st *State, c *ast.CallExpr, r *Value, a []Value) []Value {
		sig := ex.info().TypeOf(c.Fun).(*types.Signature)
		var at types.Type
		for _, p := range ex.vc.pkgs {
			if ip, ok := p.Imports["net"]; ok {
				if o := ip.Types.Scope().Lookup("UDPAddr"); o != nil {
					at = types.NewPointer(o.Type())
				}
			}
		}
		if at == nil {
			unsupp("net.UDPAddr not found")
		}
		ref := st.newRef()
		av := freshValue("udpaddr", at.(*types.Pointer).Elem())
		st.assumeValid(av)
		st.writeObj(at.(*types.Pointer).Elem(), ref, av)
		return []Value{ex.toInterface(scalarV(at, ref), sig.Results().At(0).Type(), st)}
	})
	reg("(*github.com/scionproto/scion/pkg/slayers.EndToEndExtn).FindOption", "returns a non-nil option or an error", func(ex *Exec, st *State, c *ast.CallExpr, r *Value, a []Value) []Value {
		sig := ex.info().TypeOf(c.Fun).(*types.Signature)
		pt := sig.Results().At(0).Type()
		e := freshValue("finderr", ex.vc.errT)
		st.assumeValid(e)
		ref := st.newRef()
		ov := freshValue("opt", pt.Underlying().(*types.Pointer).Elem())
		st.assumeValid(ov)
		st.writeObj(pt.Underlying().(*types.Pointer).Elem(), ref, ov)
		isErr := mkNot(mkEq(e.scalar(), mkInt(sortRef, 0)))
		return []Value{scalarV(pt, mkIte(isErr, mkInt(sortRef, 0), ref)), e}
	})
	reg("github.com/google/gopacket.NewSerializeBuffer", "returns a non-nil buffer", func(ex *Exec, st *State, c *ast.CallExpr, r *Value, a []Value) []Value {
		sig := ex.info().TypeOf(c.Fun).(*types.Signature)
		id := freshVar("serbuf", sortRef)
		st.assume(mkCmp("lt", mkInt(sortRef, 0), id))
		return []Value{scalarV(sig.Results().At(0).Type(), id)}
	})
	reg("(net.IP).To4", "returns nil or a 4-byte slice; the receiver is not modified", func(ex *Exec, st *State, c *ast.CallExpr, r *Value, a []Value) []Value {
		sig := ex.info().TypeOf(c.Fun).(*types.Signature)
		v := freshValue("to4", sig.Results().At(0).Type())
		st.assumeValid(v)
		isNil := mkEq(v.L[".ref"], mkInt(sortRef, 0))
		st.assume(mkOr(mkAnd(isNil, mkEq(v.L[".len"], mkInt(sortInt, 0))), mkAnd(mkNot(isNil), mkEq(v.L[".len"], mkInt(sortInt, 4)))))
		return []Value{v}
	})
	reg("bufio.NewReader", "returns a non-nil reader", func(ex *Exec, st *State, c *ast.CallExpr, r *Value, a []Value) []Value {
		sig := ex.info().TypeOf(c.Fun).(*types.Signature)
		return []Value{scalarV(sig.Results().At(0).Type(), st.newRef())}
	})
	connState := func(ex *Exec, st *State, c *ast.CallExpr, r *Value, a []Value) []Value {
		t := ex.info().TypeOf(c)
		v := freshValue("connstate", t)
		st.assumeValid(v)
		for _, p := range sortedKeys(v.L) {
			l := v.L[p]
			if p == ".HandshakeComplete" || p == ".TLS.HandshakeComplete" {
				st.assume(mkImplies(tlsDone(st), l))
			}
		}
		return []Value{v}
	}
	reg("(*crypto/tls.Conn).ConnectionState", "arbitrary state; HandshakeComplete holds once the handshake of the connection at hand has completed (ghost tlsdone())", connState)
	reg("(*github.com/quic-go/quic-go.Conn).ConnectionState", "arbitrary state; TLS.HandshakeComplete holds once the handshake has completed (ghost tlsdone())", connState)
	reg("(github.com/quic-go/quic-go.Connection).ConnectionState", "arbitrary state; TLS.HandshakeComplete holds once the handshake has completed (ghost tlsdone())", connState)
	reg("crypto/tls.DialWithDialer", "returns an error, or a non-nil connection whose handshake has completed (ghost tlsdone())", func(ex *Exec, st *State, c *ast.CallExpr, r *Value, a []Value) []Value {
		sig := ex.info().TypeOf(c.Fun).(*types.Signature)
		err := freshVar("err", sortRef)
		st.assume(mkCmp("le", mathC(0), err))
		ok := mkEq(err, mathC(0))
		ref := st.newRef()
		tlsSetDone(st, ok)
		return []Value{scalarV(sig.Results().At(0).Type(), mkIte(ok, ref, mathC(0))), scalarV(ex.vc.errT, err)}
	})
	reg("(*crypto/tls.ConnectionState).ExportKeyingMaterial", "returns an error, or a fresh slice of exactly the requested length with arbitrary contents (RFC 5705 exporter; the key material itself and its equality on both sides are not modelled)", func(ex *Exec, st *State, c *ast.CallExpr, r *Value, a []Value) []Value {
		n := a[2].scalar()
		err := freshVar("err", sortRef)
		st.assume(mkCmp("le", mathC(0), err))
		ok := mkEq(err, mathC(0))
		st.assume(mkImplies(ok, mkCmp("le", mkInt(sortInt, 0), n)))
		bt := types.Typ[types.Byte]
		ref := st.newRef()
		ex.havocRange(st, bt, ref)
		z := mkInt(sortInt, 0)
		out := Value{T: types.NewSlice(bt), L: map[string]*Term{".ref": mkIte(ok, ref, mathC(0)), ".off": z, ".len": mkIte(ok, n, z), ".cap": mkIte(ok, n, z)}}
		// provenance (exportlabel/exportctxlen/exportctxbyte in contracts): which label and context this key material
		// was exported with; contexts of up to 16 bytes are recorded byte by byte
		st.assume(mkEq(mkApp("tls!exportlabel", sortStr, ref), a[0].scalar()))
		ctx := a[1]
		st.assume(mkEq(mkApp("tls!exportctxlen", sortInt, ref), ctx.L[".len"]))
		carr := st.regionArr(bt, leavesOf(bt)[0], ctx.L[".ref"])
		for i := 0; i < 16; i++ {
			ii := mkInt(sortInt, int64(i))
			st.assume(mkImplies(mkCmp("lt", ii, ctx.L[".len"]), mkEq(mkApp("tls!exportctxbyte", sortInt, ref, ii), mkConv(mkSelect(carr, idxAdd(ctx.L[".off"], ii)), sortInt))))
		}
		return []Value{out, scalarV(ex.vc.errT, err)}
	})
	reg("(*crypto/tls.Conn).LocalAddr", "the project's TLS listeners are TCP listeners: returns a non-nil *net.TCPAddr", func(ex *Exec, st *State, c *ast.CallExpr, r *Value, a []Value) []Value {
		sig := ex.info().TypeOf(c.Fun).(*types.Signature)
		var at types.Type
		for _, p := range ex.vc.pkgs {
			if ip, ok := p.Imports["net"]; ok {
				if o := ip.Types.Scope().Lookup("TCPAddr"); o != nil {
					at = types.NewPointer(o.Type())
				}
			}
		}
		if at == nil {
			unsupp("net.TCPAddr not found")
		}
		ref := st.newRef()
		av := freshValue("tcpaddr", at.(*types.Pointer).Elem())
		st.assumeValid(av)
		st.writeObj(at.(*types.Pointer).Elem(), ref, av)
		return []Value{ex.toInterface(scalarV(at, ref), sig.Results().At(0).Type(), st)}
	})
	quicLocal := func(ex *Exec, st *State, c *ast.CallExpr, r *Value, a []Value) []Value {
		sig := ex.info().TypeOf(c.Fun).(*types.Signature)
		var at types.Type
		for _, p := range ex.vc.pkgs {
			if ip, ok := p.Imports["example.com/scion-time/net/udp"]; ok {
				if o := ip.Types.Scope().Lookup("UDPAddr"); o != nil {
					at = o.Type()
				}
			}
		}
		if at == nil {
			unsupp("udp.UDPAddr not found")
		}
		av := freshValue("scionaddr", at)
		st.assumeValid(av)
		found := false
		for _, p := range sortedKeys(av.L) {
			h := av.L[p]
			if p == ".Host" {
				st.assume(mkNot(mkEq(h, mkInt(sortRef, 0))))
				found = true
			}
		}
		if !found {
			keys := []string{}
			for _, p := range sortedKeys(av.L) {
				keys = append(keys, p)
			}
			unsupp("udp.UDPAddr: no Host leaf among %v", keys)
		}
		return []Value{ex.toInterface(av, sig.Results().At(0).Type(), st)}
	}
	reg("(github.com/quic-go/quic-go.Connection).LocalAddr", "the project's QUIC listeners run over scion.serverConn, whose LocalAddr is the configured udp.UDPAddr value with a non-nil Host", quicLocal)
	reg("(*github.com/quic-go/quic-go.Conn).LocalAddr", "the project's QUIC listeners run over scion.serverConn, whose LocalAddr is the configured udp.UDPAddr value with a non-nil Host", quicLocal)
	reg("(github.com/scionproto/scion/pkg/addr.Host).Type", "returns the host address type (HostTypeNone, HostTypeIP, HostTypeSVC)", func(ex *Exec, st *State, c *ast.CallExpr, r *Value, a []Value) []Value {
		sig := ex.info().TypeOf(c.Fun).(*types.Signature)
		t := r.L[".t"]
		if t == nil {
			unsupp("addr.Host: type field not found")
		}
		return []Value{scalarV(sig.Results().At(0).Type(), t)}
	})
	reg("(github.com/scionproto/scion/pkg/addr.Host).IP", "panics (\"IP called on non-IP address\") unless the host address has type HostTypeIP", func(ex *Exec, st *State, c *ast.CallExpr, r *Value, a []Value) []Value {
		sig := ex.info().TypeOf(c.Fun).(*types.Signature)
		t := r.L[".t"]
		if t == nil {
			unsupp("addr.Host: type field not found")
		}
		ex.check(st, mkEq(t, mkInt(t.Sort, 1)), "safety:panic", c, "addr.Host.IP on a non-IP host address: "+ex.src(c.Fun))
		st.assume(mkEq(t, mkInt(t.Sort, 1)))
		ipv := Value{T: sig.Results().At(0).Type(), L: map[string]*Term{}}
		for _, p := range sortedKeys(r.L) {
			x := r.L[p]
			_ = x
			if strings.HasPrefix(p, ".ip") {
				ipv.L[strings.TrimPrefix(p, ".ip")] = x
			}
		}
		if len(ipv.L) == 0 {
			ipv = freshValue("hostip", sig.Results().At(0).Type())
			st.assumeValid(ipv)
		}
		return []Value{ipv}
	})
	rfm := reg("(*net.UDPConn).ReadFrom", "receives an arbitrary datagram: 0 <= n <= len(b), contents of b arbitrary, source and error arbitrary", func(ex *Exec, st *State, c *ast.CallExpr, r *Value, a []Value) []Value {
		sig := ex.info().TypeOf(c.Fun).(*types.Signature)
		bt := types.Typ[types.Byte]
		b := a[0]
		lv := &LValue{kind: lvElem, rootT: bt, ref: b.L[".ref"], idx: b.L[".off"]}
		ex.frameCheck(lv, st, c)
		ex.havocRange(st, bt, b.L[".ref"])
		var res []Value
		for i := 0; i < sig.Results().Len(); i++ {
			v := freshValue("recvfrom", sig.Results().At(i).Type())
			st.assumeValid(v)
			res = append(res, v)
		}
		st.assume(mkAnd(mkCmp("le", mkInt(sortInt, 0), res[0].scalar()), mkCmp("le", res[0].scalar(), b.L[".len"])))
		return res
	})
	rfm.writes = func(call *ast.CallExpr, info *types.Info, w *writes) {
		w.fams["R|"+typeKey(types.Typ[types.Byte])+"|"] = true
	}
	reg("(github.com/scionproto/scion/pkg/slayers/path.Path).Len", "a length: result >= 0", func(ex *Exec, st *State, c *ast.CallExpr, r *Value, a []Value) []Value {
		v := freshValue("pathlen", types.Typ[types.Int])
		st.assumeValid(v)
		st.assume(mkCmp("le", mkInt(sortInt, 0), v.scalar()))
		return []Value{v}
	})
	// ---- byte streams: arbitrary data from the peer ----
	{
		mb := reg("encoding/binary.Read", "fills *data (fixed-size value or the elements of a slice) with arbitrary bytes from the stream, error arbitrary; ghost lastreadof(T) = the value read into a target of type T", func(ex *Exec, st *State, c *ast.CallExpr, r *Value, a []Value) []Value {
			u, ok := ast.Unparen(c.Args[2]).(*ast.UnaryExpr)
			if !ok || u.Op != token.AND {
				unsupp("binary.Read: data argument must have the form &x")
			}
			lv := ex.lvalue(u.X, st)
			t := lv.typ()
			if sl, ok := t.Underlying().(*types.Slice); ok {
				cur := st.readLV(lv)
				elv := &LValue{kind: lvElem, rootT: sl.Elem(), ref: cur.L[".ref"], idx: cur.L[".off"]}
				ex.frameCheck(elv, st, c)
				ex.havocRange(st, sl.Elem(), cur.L[".ref"])
			} else {
				nv := freshValue("binread", t)
				st.assumeValid(nv)
				ex.assign(lv, nv, st, c)
				st.ghost["bin.last:"+typeKey(t)] = nv
			}
			e := freshValue("readerr", ex.vc.errT)
			st.assumeValid(e)
			tlsSetDone(st, mkEq(e.scalar(), mkInt(sortRef, 0)))
			return []Value{e}
		})
		mb.writes = func(call *ast.CallExpr, info *types.Info, w *writes) {
			w.bools["tls.hs"] = true
			if len(call.Args) == 3 {
				if u, ok := ast.Unparen(call.Args[2]).(*ast.UnaryExpr); ok && u.Op == token.AND {
					t := info.TypeOf(u.X)
					if sl, ok := t.Underlying().(*types.Slice); ok {
						w.fams["R|"+typeKey(sl.Elem())+"|"] = true
					} else {
						w.binReads[typeKey(t)] = t
					}
				}
			}
		}
		br := reg("(*bufio.Reader).Read", "reads 0 <= n <= len(p) arbitrary bytes into p (possibly fewer than len(p)), error arbitrary", func(ex *Exec, st *State, c *ast.CallExpr, r *Value, a []Value) []Value {
			bt := types.Typ[types.Byte]
			p := a[0]
			lv := &LValue{kind: lvElem, rootT: bt, ref: p.L[".ref"], idx: p.L[".off"]}
			ex.frameCheck(lv, st, c)
			ex.havocRange(st, bt, p.L[".ref"])
			n := freshValue("nread", types.Typ[types.Int])
			st.assumeValid(n)
			st.assume(mkAnd(mkCmp("le", mkInt(sortInt, 0), n.scalar()), mkCmp("le", n.scalar(), p.L[".len"])))
			e := freshValue("readerr", ex.vc.errT)
			st.assumeValid(e)
			st.ghost["io.lastn"] = n
			st.ghost["io.lastwant"] = scalarV(types.Typ[types.Int], p.L[".len"])
			tlsSetDone(st, mkCmp("lt", mkInt(sortInt, 0), n.scalar()))
			return []Value{n, e}
		})
		br.writes = func(call *ast.CallExpr, info *types.Info, w *writes) {
			w.bools["tls.hs"] = true
			w.fams["R|"+typeKey(types.Typ[types.Byte])+"|"] = true
			w.ints["io.lastn"] = true
			w.ints["io.lastwant"] = true
		}
		rf := reg("io.ReadFull", "reads exactly len(buf) bytes or fails: err == nil implies n == len(buf); 0 <= n <= len(buf)", func(ex *Exec, st *State, c *ast.CallExpr, r *Value, a []Value) []Value {
			bt := types.Typ[types.Byte]
			p := a[1]
			lv := &LValue{kind: lvElem, rootT: bt, ref: p.L[".ref"], idx: p.L[".off"]}
			ex.frameCheck(lv, st, c)
			ex.havocRange(st, bt, p.L[".ref"])
			n := freshValue("nread", types.Typ[types.Int])
			st.assumeValid(n)
			st.assume(mkAnd(mkCmp("le", mkInt(sortInt, 0), n.scalar()), mkCmp("le", n.scalar(), p.L[".len"])))
			e := freshValue("readerr", ex.vc.errT)
			st.assumeValid(e)
			st.assume(mkImplies(mkEq(e.scalar(), mkInt(sortRef, 0)), mkEq(n.scalar(), p.L[".len"])))
			st.ghost["io.lastn"] = n
			st.ghost["io.lastwant"] = scalarV(types.Typ[types.Int], p.L[".len"])
			tlsSetDone(st, mkCmp("lt", mkInt(sortInt, 0), n.scalar()))
			return []Value{n, e}
		})
		rf.writes = br.writes
	}
	regSort()
	reg("(*sync.Mutex).Lock", "mutual exclusion: acquires the ghost permission of the guarded state", func(ex *Exec, st *State, c *ast.CallExpr, r *Value, a []Value) []Value {
		ex.lockOp(st, c, r, true)
		return nil
	})
	reg("(*sync.Mutex).Unlock", "releases the ghost permission; the lock invariant must hold", func(ex *Exec, st *State, c *ast.CallExpr, r *Value, a []Value) []Value {
		ex.lockOp(st, c, r, false)
		return nil
	})
	reg("golang.org/x/sys/unix.CmsgSpace", "16 + roundup8(n) on linux/amd64", func(ex *Exec, st *State, c *ast.CallExpr, r *Value, a []Value) []Value {
		n := a[0].scalar()
		// (n + 7) &^ 7 + 16, in Go int arithmetic
		al := mkArith("bandnot", mkArith("add", n, mkInt(sortInt, 7)), mkInt(sortInt, 7))
		return []Value{scalarV(types.Typ[types.Int], mkArith("add", al, mkInt(sortInt, 16)))}
	})
	reg("(*golang.org/x/sys/unix.Timespec).Unix", "returns (Sec, Nsec)", func(ex *Exec, st *State, c *ast.CallExpr, r *Value, a []Value) []Value {
		pt := r.T.Underlying().(*types.Pointer)
		v := ex.deref(*r, pt.Elem(), st, c)
		return []Value{scalarV(types.Typ[types.Int64], v.L[".Sec"]), scalarV(types.Typ[types.Int64], v.L[".Nsec"])}
	})
	reg("sync/atomic.CompareAndSwapUint32", "sequential atomic specification", func(ex *Exec, st *State, c *ast.CallExpr, r *Value, a []Value) []Value {
		p := a[0]
		pt := p.T.Underlying().(*types.Pointer)
		cur := ex.deref(p, pt.Elem(), st, c).scalar()
		ok := mkEq(cur, a[1].scalar())
		nv := scalarV(pt.Elem(), mkIte(ok, a[2].scalar(), cur))
		if p.Loc != nil {
			ex.assign(p.Loc, nv, st, c)
		} else {
			ex.assign(&LValue{kind: lvObj, rootT: pt.Elem(), ref: p.scalar()}, nv, st, c)
		}
		return []Value{boolV(ok)}
	})
}

func nonNilErr(ex *Exec, st *State, c *ast.CallExpr, r *Value, a []Value) []Value {
	e := freshVar("err", sortRef)
	st.assume(mkCmp("lt", mathC(0), e))
	return []Value{scalarV(ex.vc.errT, e)}
}

func itoa(n int) string { return big.NewInt(int64(n)).String() }

func c2t(ex *Exec, c *ast.CallExpr) types.Type { return ex.info().TypeOf(c) }

// ---- sorting: result is an ordered permutation of the input (stability not assumed) ----

func regSort() {
	sortModel := func(key func(ex *Exec, st *State, c *ast.CallExpr, et types.Type, args []Value) string) func(ex *Exec, st *State, c *ast.CallExpr, r *Value, a []Value) []Value {
		return func(ex *Exec, st *State, c *ast.CallExpr, r *Value, a []Value) []Value {
			s := a[0]
			et := s.T.Underlying().(*types.Slice).Elem()
			kp := key(ex, st, c, et, a)
			lv := &LValue{kind: lvElem, rootT: et, ref: s.L[".ref"], idx: s.L[".off"]}
			sub := st.clone()
			sub.assume(mkCmp("lt", mkInt(sortInt, 1), s.L[".len"]))
			ex.frameCheck(lv, sub, c)
			ex.sortRegion(st, et, kp, s)
			return nil
		}
	}
	m := reg("slices.Sort", "result is a permutation of the input in ascending order", sortModel(func(ex *Exec, st *State, c *ast.CallExpr, et types.Type, a []Value) string { return "" }))
	m.writes = func(call *ast.CallExpr, info *types.Info, w *writes) {
		if s, ok := info.TypeOf(call.Args[0]).Underlying().(*types.Slice); ok {
			w.fams["R|"+typeKey(s.Elem())+"|"] = true
		}
	}
	m2 := reg("slices.SortFunc", "result is a permutation of the input ordered by the comparison's key (comparison must be cmp.Compare on one field)", sortModel(func(ex *Exec, st *State, c *ast.CallExpr, et types.Type, a []Value) string {
		// recognise func(a, b T) int { return cmp.Compare(a.f, b.f) }
		fv := a[1].Fn
		if fv == nil || fv.Lit == nil || len(fv.Lit.Body.List) != 1 {
			unsupp("SortFunc comparison is not a simple literal")
		}
		ret, ok := fv.Lit.Body.List[0].(*ast.ReturnStmt)
		if !ok || len(ret.Results) != 1 {
			unsupp("SortFunc comparison shape")
		}
		call, ok := ret.Results[0].(*ast.CallExpr)
		if !ok || len(call.Args) != 2 {
			unsupp("SortFunc comparison shape")
		}
		if se, ok := call.Fun.(*ast.SelectorExpr); !ok || se.Sel.Name != "Compare" {
			unsupp("SortFunc comparison is not cmp.Compare")
		}
		p0 := fv.Lit.Type.Params.List[0].Names
		var n0, n1 string
		if len(p0) == 2 {
			n0, n1 = p0[0].Name, p0[1].Name
		} else {
			n0 = p0[0].Name
			n1 = fv.Lit.Type.Params.List[1].Names[0].Name
		}
		path := func(e ast.Expr, root string) (string, bool) {
			p := ""
			for {
				switch x := e.(type) {
				case *ast.SelectorExpr:
					p = "." + x.Sel.Name + p
					e = x.X
					continue
				case *ast.Ident:
					return p, x.Name == root
				}
				return "", false
			}
		}
		pa, oka := path(call.Args[0], n0)
		pb, okb := path(call.Args[1], n1)
		if !oka || !okb || pa != pb {
			unsupp("SortFunc comparison must compare the same field of a and b in order")
		}
		return pa
	}))
	m2.writes = m.writes
}

// permFns returns the bijection perm/inv with the given id: total on the integers, mapping [0,n) onto itself.
func permFns(id string) (perm, inv func(*Term) *Term) {
	perm = func(i *Term) *Term { t := mkApp("perm!"+id, sortInt, i); t.NoWrap = true; return t }
	inv = func(i *Term) *Term { t := mkApp("perminv!"+id, sortInt, i); t.NoWrap = true; return t }
	return
}

func permAxioms(id string, n *Term) []*Term {
	perm, inv := permFns(id)
	zero := mkInt(sortInt, 0)
	inr := func(x *Term) *Term { return mkAnd(mkCmp("le", zero, x), mkCmp("lt", x, n)) }
	j := freshVar("j", sortInt)
	k := freshVar("k", sortInt)
	return []*Term{
		mkQuant("forall", []*Term{j}, mkAnd(mkEq(inv(perm(j)), j), mkImplies(inr(j), inr(perm(j)))), []*Term{perm(j)}),
		mkQuant("forall", []*Term{k}, mkAnd(mkEq(perm(inv(k)), k), mkImplies(inr(k), inr(inv(k)))), []*Term{inv(k)}),
	}
}

// permutedFact: for all absolute indices x in [aoff, aoff+n): a[x] == b[boff + perm(x-aoff)]
func permutedFact(id string, a, b *Term, aoff, boff, n *Term) *Term {
	perm, _ := permFns(id)
	x := freshVar("x", sortInt)
	in := mkAnd(mkCmp("le", aoff, x), mkCmp("lt", x, idxAdd(aoff, n)))
	return mkQuant("forall", []*Term{x}, mkImplies(in, mkEq(mkSelect(a, x), mkSelect(b, idxAdd(boff, perm(idxSub(x, aoff)))))), []*Term{mkSelect(a, x)})
}

// sortRegion replaces s[0:len] by an ordered permutation of itself. The permutation is an uninterpreted
// bijection (with inverse) on [0,n); nothing else about it is assumed (in particular not stability).
func (ex *Exec) sortRegion(st *State, et types.Type, keyPath string, s Value) {
	n := s.L[".len"]
	off := s.L[".off"]
	ref := s.L[".ref"]
	freshCounter["perm"]++
	id := itoa(freshCounter["perm"])
	for _, ax := range permAxioms(id, n) {
		st.assume(ax)
	}
	var keyLeaf *Leaf
	for _, l := range leavesOf(et) {
		l := l
		old := st.regionArr(et, l, ref)
		nw := freshVar("sorted"+l.Path, old.Sort)
		st.assume(permutedFact(id, nw, old, off, off, n))
		x := freshVar("x", sortInt)
		st.assume(mkQuant("forall", []*Term{x}, mkImplies(mkOr(mkCmp("lt", x, off), mkCmp("le", idxAdd(off, n), x)), mkEq(mkSelect(nw, x), mkSelect(old, x))), []*Term{mkSelect(nw, x)}))
		st.setRegionArr(et, l, ref, nw)
		if l.Path == keyPath {
			keyLeaf = &l
		}
	}
	if keyLeaf == nil {
		unsupp("sort key %q is not a scalar leaf of %s", keyPath, et)
	}
	arr := st.regionArr(et, *keyLeaf, ref)
	a := freshVar("a", sortInt)
	b := freshVar("b", sortInt)
	st.assume(mkQuant("forall", []*Term{a, b}, mkImplies(mkAnd(mkCmp("le", off, a), mkCmp("le", a, b), mkCmp("lt", b, idxAdd(off, n))),
		mkCmp("le", mkSelect(arr, a), mkSelect(arr, b))), []*Term{mkSelect(arr, a), mkSelect(arr, b)}))
	st.ghost["lastperm"] = Value{L: map[string]*Term{"": mkInt(sortInt, int64(freshCounter["perm"]))}}
}

// ---- locks (ghost ownership) ----

func (ex *Exec) lockOp(st *State, c *ast.CallExpr, r *Value, acquire bool) {
	name := "?"
	if se, ok := ast.Unparen(c.Fun).(*ast.SelectorExpr); ok {
		name = ex.src(se.X)
	}
	key := "lock:" + name
	held, ok := st.ghost[key]
	cur := tFalse
	if ok {
		cur = held.scalar()
	}
	if acquire {
		ex.check(st, mkNot(cur), "lock:not-reentrant", c, name)
		st.ghost[key] = boolV(tTrue)
		// state guarded by the lock may have been changed by other goroutines: havoc + assume the lock invariant
		ex.acquireGuarded(st, name, c)
	} else {
		ex.check(st, cur, "lock:held-at-unlock", c, name)
		ex.releaseGuarded(st, name, c)
		st.ghost[key] = boolV(tFalse)
	}
}

func (ex *Exec) lockHeld(st *State, name string) *Term {
	if v, ok := st.ghost["lock:"+name]; ok {
		return v.scalar()
	}
	return tFalse
}

func hasPrefixAny(s string, ps []string) bool {
	for _, p := range ps {
		if strings.HasPrefix(s, p) {
			return true
		}
	}
	return false
}

// advanceClock: a new reading of the wall clock with monotonic part: not earlier than the previous reading.
func (ex *Exec) advanceClock(st *State) Value {
	v := freshValue("now", ex.vc.timeT)
	st.assumeValid(v)
	ex.saneClock(st, v)
	prev := ex.lastNow(st)
	st.assume(mkNot(timeLess(v, prev)))
	st.ghost["lastnow"] = v
	return v
}

func (ex *Exec) lastNow(st *State) Value {
	if g, ok := st.ghost["lastnow"]; ok {
		return g
	}
	v := namedValue("ghost|lastnow0", ex.vc.timeT)
	st.assumeValid(v)
	ex.saneClock(st, v)
	st.ghost["lastnow"] = v
	return v
}

// saneClock: readings of the wall clock lie between 1970 and 2^40 s after it (year ~36812).
func (ex *Exec) saneClock(st *State, v Value) {
	ex.note("wall-clock readings (time.Now) lie in [1970-01-01, 1970-01-01 + 2^40 s]")
	st.assume(mkCmp("le", mkInt(i64, 0), v.L[".sec"]))
	st.assume(mkCmp("le", v.L[".sec"], mkInt(i64, 1<<40)))
}

// ---- AEAD (github.com/miscreant/miscreant.go as used here: NewAEAD("AES-CMAC-SIV", key, 16)) ----

func init() {
	reg("github.com/miscreant/miscreant.go.NewAEAD", "err == nil iff len(key) is 32 or 64; the AEAD has nonce size 16 (the constant passed at every call site)", func(ex *Exec, st *State, c *ast.CallExpr, r *Value, a []Value) []Value {
		key := a[1]
		okLen := mkOr(mkEq(key.L[".len"], mkInt(sortInt, 32)), mkEq(key.L[".len"], mkInt(sortInt, 64)))
		aead := freshVar("aead", sortRef)
		err := freshVar("err", sortRef)
		st.assume(mkCmp("le", mathC(0), aead))
		st.assume(mkCmp("le", mathC(0), err))
		st.assume(mkEq(mkEq(err, mathC(0)), okLen))
		st.assume(mkEq(mkEq(aead, mathC(0)), mkNot(okLen)))
		// ghost: which key slice this AEAD was built from (plumbing obligations)
		st.assume(mkEq(mkApp("aead!keyref", sortRef, aead), key.L[".ref"]))
		st.assume(mkEq(mkApp("aead!keyoff", sortInt, aead), key.L[".off"]))
		st.assume(mkEq(mkApp("aead!keylen", sortInt, aead), key.L[".len"]))
		st.assume(mkEq(mkApp("aead!keycap", sortInt, aead), key.L[".cap"]))
		if ns, ok := a[2].L[""]; ok && !(ns.isConst() && ns.Val.Int64() == 16) {
			unsupp("NewAEAD with a nonce size other than the constant 16")
		}
		t := c2tN(ex, c, 0)
		return []Value{scalarV(t, aead), scalarV(ex.vc.errT, err)}
	})
	bt := types.Typ[types.Byte]
	reg("(crypto/cipher.AEAD).Open", "panics unless len(nonce) == 16; on success the plaintext is a fresh slice of len(ciphertext)-16 bytes; authenticity itself is assumed (ideal AEAD), not proved", func(ex *Exec, st *State, c *ast.CallExpr, r *Value, a []Value) []Value {
		nonce, ct := a[1], a[2]
		ex.check(st, mkEq(nonce.L[".len"], mkInt(sortInt, 16)), "safety:panic", c, "AEAD.Open: incorrect nonce length")
		err := freshVar("err", sortRef)
		st.assume(mkCmp("le", mathC(0), err))
		ok := mkEq(err, mathC(0))
		st.assume(mkImplies(ok, mkCmp("le", mkInt(sortInt, 16), ct.L[".len"])))
		ref := st.newRef()
		ex.havocRange(st, bt, ref)
		n := idxSub(ct.L[".len"], mkInt(sortInt, 16))
		z := mkInt(sortInt, 0)
		pt := Value{T: a[0].T, L: map[string]*Term{".ref": mkIte(ok, ref, mathC(0)), ".off": z, ".len": mkIte(ok, n, z), ".cap": mkIte(ok, n, z)}}
		// ghost trace of the last Open on this path: (aead, nonce, ciphertext, associated data)
		st.ghost["aead.open.ok"] = boolV(ok)
		st.ghost["aead.open.aead"] = scalarV(aeadHandleT, r.scalar())
		st.ghost["aead.open.ad"] = a[3]
		st.ghost["aead.open.nonce"] = nonce
		st.ghost["aead.open.ct"] = ct
		return []Value{pt, scalarV(ex.vc.errT, err)}
	})
	reg("(crypto/cipher.AEAD).NonceSize", "16: the nonce size every AEAD in this repository is constructed with", func(ex *Exec, st *State, c *ast.CallExpr, r *Value, a []Value) []Value {
		return []Value{scalarV(types.Typ[types.Int], mkInt(sortInt, 16))}
	})
	reg("(crypto/cipher.AEAD).Seal", "panics unless len(nonce) == 16; the ciphertext is a fresh slice of len(plaintext)+16 bytes", func(ex *Exec, st *State, c *ast.CallExpr, r *Value, a []Value) []Value {
		nonce, pt := a[1], a[2]
		ex.check(st, mkEq(nonce.L[".len"], mkInt(sortInt, 16)), "safety:panic", c, "AEAD.Seal: incorrect nonce length")
		ref := st.newRef()
		ex.havocRange(st, bt, ref)
		n := idxAdd(pt.L[".len"], mkInt(sortInt, 16))
		st.ghost["aead.seal.ok"] = boolV(tTrue)
		st.ghost["aead.seal.aead"] = scalarV(aeadHandleT, r.scalar())
		st.ghost["aead.seal.ad"] = a[3]
		st.ghost["aead.seal.pt"] = pt
		return []Value{{T: a[0].T, L: map[string]*Term{".ref": ref, ".off": mkInt(sortInt, 0), ".len": n, ".cap": n}}}
	})
}

func c2tN(ex *Exec, c *ast.CallExpr, i int) types.Type {
	t := ex.info().TypeOf(c)
	if tup, ok := t.(*types.Tuple); ok {
		return tup.At(i).Type()
	}
	return t
}

// bytesEqualTerm: an application term (so that two evaluations on the same state agree) defined by the pointwise formula.
func bytesEqualTerm(st *State, x, y Value) *Term {
	bt := types.Typ[types.Uint8]
	lf := leavesOf(bt)[0]
	ax := st.regionArr(bt, lf, x.L[".ref"])
	ay := st.regionArr(bt, lf, y.L[".ref"])
	res := mkApp("bytes.Equal", sortBool, ax, x.L[".off"], x.L[".len"], ay, y.L[".off"], y.L[".len"])
	// over absolute indices of x's region, so that the pattern is free of arithmetic (robust instantiation)
	j := freshVar("x", sortInt)
	rel := idxSub(j, x.L[".off"])
	body := mkImplies(mkAnd(mkCmp("le", mkInt(sortInt, 0), rel), mkCmp("lt", rel, x.L[".len"])),
		mkEq(mkSelect(ax, j), mkSelect(ay, idxAdd(y.L[".off"], rel))))
	st.assume(mkEq(res, mkAnd(mkEq(x.L[".len"], y.L[".len"]), mkQuant("forall", []*Term{j}, body, []*Term{mkSelect(ax, j)}))))
	return res
}

// timeSubTerm: t.Sub(u) as one operator with an exact printing in both integer encodings.
func timeSubTerm(t, u Value) *Term {
	ts, tn, us, un := t.L[".sec"], t.L[".nsec"], u.L[".sec"], u.L[".nsec"]
	if ts.isConst() && tn.isConst() && us.isConst() && un.isConst() {
		d := new(big.Int).Sub(ts.Val, us.Val)
		d.Mul(d, big.NewInt(nsPerSec))
		d.Add(d, new(big.Int).Sub(tn.Val, un.Val))
		if d.Cmp(i64.lo()) < 0 {
			d = i64.lo()
		}
		if d.Cmp(i64.hi()) > 0 {
			d = i64.hi()
		}
		return mkIntBig(i64, d)
	}
	return mk("tsub", i64, ts, tn, us, un)
}

// globalFacts: assumptions about modelled external functions that hold on every path (they are added to every
// query that mentions one of their symbols, never guarded by a path condition).
var globalFacts []*Term
var globalFactSeen = map[*Term]bool{}

func addGlobalFact(f *Term) {
	if f.isTrue() || globalFactSeen[f] {
		return
	}
	globalFactSeen[f] = true
	globalFacts = append(globalFacts, f)
}

func globalFactsFor(ts []*Term) []*Term {
	if len(globalFacts) == 0 {
		return nil
	}
	syms := map[string]bool{}
	seen := map[*Term]bool{}
	for _, t := range ts {
		symbolsOf(t, syms, seen)
	}
	var out []*Term
	for _, f := range globalFacts {
		fs := map[string]bool{}
		symbolsOf(f, fs, map[*Term]bool{})
		for n := range fs {
			if syms[n] {
				out = append(out, f)
				break
			}
		}
	}
	return out
}

// Ghost "tls.hs": the TLS handshake of the connection at hand has completed. Arbitrary at function entry; a successful
// read of at least one byte from the stream or a successful dial makes it true; (*tls.Conn).ConnectionState reports
// HandshakeComplete accordingly. (crypto/tls: ExportKeyingMaterial on a state taken before the handshake completed
// calls a nil exporter function.)
func tlsDone(st *State) *Term {
	g, ok := st.ghost["tls.hs"]
	if !ok {
		g = namedValue("G|tls.hs", types.Typ[types.Bool])
		st.ghost["tls.hs"] = g
	}
	return g.scalar()
}

func tlsSetDone(st *State, when *Term) {
	st.ghost["tls.hs"] = boolV(mkOr(tlsDone(st), when))
}
