#!/usr/bin/env python3
# Regenerates MANIFEST.json from props.json + manifest_meta.json (claimed checks and not_applicable reasons).
import json, subprocess
props = json.load(open('/verif/props.json'))
meta = json.load(open('/verif/manifest_meta.json'))
allp = [json.loads(l)['id'] for l in open('/verif/properties.jsonl')]
commits = subprocess.run(['git','-C','/repo','log','--format=%H %s'],capture_output=True,text=True).stdout.splitlines()
hook_commits = [c.split()[0] for c in commits if ' verif:' in c]
checks = []
na = []
for pid in allp:
    m = meta.get(pid, {})
    if pid in props and m.get('claimed', True):
        checks.append({
            "property_id": pid,
            "quick_cmd": f"./check {pid} --tier quick",
            "thorough_cmd": f"./check {pid} --tier thorough",
            "evidence_file": f"/verif/evidence/{pid}.json",
            "replay_cmd_template": f"./check {pid} --tier quick",
            "engine": "govc",
            "level_claimed": {"category": "proof", "text": m.get('level_text', ''), "design_ref": m.get('design_ref', 'DESIGN.md §4 ' + pid)},
            "level_note": m.get('level_note', ''),
            "technique": m.get('technique', 'contract-based deductive verification: weakest-precondition style VC generation over the typed Go AST of /repo (govc), contracts in comment-only contracts_verif.go files, obligations discharged by z3 4.8.12 / z3 5.1.0 / cvc5 1.0.3'),
        })
    else:
        na.append({"property_id": pid, "reason": m.get('na_reason', 'not yet brought under contract in this round: no check is claimed (see DESIGN.md §4 ' + pid + ' for the plan)')})
man = {
    "version": 1,
    "setup_cmd": "cd /verif/govc && GOFLAGS=-mod=vendor GOPROXY=off go build -o /verif/bin/govc .",
    "hooks": {
        "guard": "verif",
        "enable": "go build/go list with -tags verif: adds the <pkg>/contracts_verif.go files: contracts as //@ comments, plus ghost code that exists only under the tag (harness functions composing real functions, trusted stubs for third-party calls, accessors for unexported fields); nothing in the untagged build changes",
        "baseline_off_cmd": "cd /repo && GOFLAGS=-mod=mod GOPROXY=off go test -vet=off -count=1 ./...",
        "source_commits": hook_commits,
        "add_only": True,
    },
    "engines": [{"name": "govc", "path": "/verif/govc", "serves_properties": [c["property_id"] for c in checks],
                 "kind_free_text": "VC generator for a subset of Go over go/types (typed AST of /repo's working tree), forward symbolic execution with state merging and invariant cut points, modular calls against callee contracts, SMT-LIB output in two exact integer encodings (Int with wrap-around, bit-vectors) and FloatingPoint, portfolio z3/z3-new/cvc5"}],
    "checks": checks,
    "not_applicable": na,
    "notes": "All checks rebuild from /repo's working tree (packages are re-loaded and every obligation regenerated on every run). See DESIGN.md.",
}
json.dump(man, open('/verif/MANIFEST.json','w'), indent=1)
print(len(checks), "checks,", len(na), "not claimed")
